"""Receiver typing from the repository's own .pxd declarations, call resolution and the
package call graph."""
import ast

from .frontend import ClassInfo, FuncInfo, dotted_name, iter_scope, walk_expr
from . import q

# names of hooks through which user code is entered: modelled as opaque callbacks
USER_CALLBACK_FIELDS = {"_generator", "_value_provider", "generator"}


class Resolver(object):
    def __init__(self, repo):
        self.repo = repo
        self._callees = {}
        self._callers = None
        self._methods_by_name = {}
        for c in repo.all_classes():
            for n, m in c.methods.items():
                self._methods_by_name.setdefault(n, []).append(m)

    # ------------------------------------------------------------------------- types
    def type_from_string(self, module, tstr):
        """'batching.BatchBase' / 'AsyncTask' / 'async_task.AsyncTask' -> ClassInfo or None."""
        if tstr is None:
            return None
        parts = tstr.split(".")
        name = parts[-1]
        if len(parts) == 1:
            if name in module.classes:
                return module.classes[name]
            px = module.pxd
            if px and name in px.cimports:
                srcmod, orig = px.cimports[name]
                mname = srcmod.lstrip(".").split(".")[-1] or None
                if mname in self.repo.modules and orig in self.repo.modules[mname].classes:
                    return self.repo.modules[mname].classes[orig]
            r = self.repo.resolve_dotted(module, name)
            if r and r[0] == "class":
                return r[1]
            return None
        modname = parts[-2]
        if modname in self.repo.modules and name in self.repo.modules[modname].classes:
            return self.repo.modules[modname].classes[name]
        return None

    def owner_method(self, fi):
        cur = fi
        while cur.parent is not None:
            cur = cur.parent
        return cur

    def local_types(self, fi):
        """name -> ClassInfo for parameters/locals typed by the .pxd."""
        out = {}
        top = self.owner_method(fi)
        px = top.pxd() if top is fi else None
        if px is not None:
            for t, n, _ in px.params:
                c = self.type_from_string(fi.module, t)
                if c:
                    out[n] = c
            for n, t in px.locals.items():
                c = self.type_from_string(fi.module, t)
                if c:
                    out[n] = c
        return out

    def expr_class(self, fi, expr, depth=0):
        """Set of ClassInfo the expression's value may be an instance of, or None if unknown."""
        if depth > 4:
            return None
        if isinstance(expr, ast.Name):
            if expr.id == "self" and fi.cls is not None:
                return {fi.cls}
            lt = self.local_types(fi)
            if expr.id in lt:
                return {lt[expr.id]}
            # local assigned once from a typed expression
            vals = []
            scope = fi
            while scope is not None:
                for n in iter_scope(scope.node):
                    if isinstance(n, ast.Assign):
                        for t in n.targets:
                            if isinstance(t, ast.Name) and t.id == expr.id:
                                vals.append(n.value)
                if vals:
                    break
                scope = scope.parent
            if vals:
                acc = set()
                for v in vals:
                    if isinstance(v, ast.Constant) and v.value is None:
                        continue
                    c = self.expr_class(fi, v, depth + 1)
                    if c is None:
                        return None
                    acc |= c
                return acc or None
            return None
        if isinstance(expr, ast.Attribute):
            base = self.expr_class(fi, expr.value, depth + 1)
            if base:
                acc = set()
                for b in base:
                    t, owner = b.field_type(expr.attr)
                    if t is None:
                        return None
                    c = self.type_from_string(owner.module, t)
                    if c is None:
                        return None
                    acc.add(c)
                return acc
            return None
        if isinstance(expr, ast.Call):
            tgt = self.resolve_callee_expr(fi, expr.func)
            if tgt and tgt[0] == "class":
                return {tgt[1]}
            if tgt and tgt[0] == "func":
                f = tgt[1]
                px = f.pxd()
                if px and px.ret:
                    c = self.type_from_string(f.module, px.ret)
                    if c:
                        return {c}
            if isinstance(expr.func, ast.Attribute):
                base = self.expr_class(fi, expr.func.value, depth + 1)
                if base:
                    acc = set()
                    for b in base:
                        m = b.find_method(expr.func.attr)
                        px = m.pxd() if m else None
                        c = self.type_from_string(m.module, px.ret) if px and px.ret else None
                        if c is None:
                            return None
                        acc.add(c)
                    return acc
            return None
        return None

    # ------------------------------------------------------------------------- callees
    def resolve_callee_expr(self, fi, func):
        """('func', FuncInfo) | ('class', ClassInfo) | ('ext', dotted) | None for a Name/dotted."""
        d = dotted_name(func)
        if d is None:
            return None
        head = d.split(".")[0]
        # nested / enclosing local functions
        scope = fi
        while scope is not None:
            for k, nf in scope.nested.items():
                if nf.node.name == head and "." not in d:
                    return ("func", nf)
            scope = scope.parent
        if head == "self":
            return None
        r = self.repo.resolve_dotted(fi.module, d)
        if r is None:
            return None
        if r[0] in ("func", "class", "ext"):
            return r
        return None

    def callees(self, fi):
        """List of (call ast, targets [FuncInfo], kind) for every call in fi's own body.
        kind: 'resolved' | 'cha' (by method name only) | 'ext' | 'callback' | 'unknown'."""
        if fi.qualname in self._callees:
            return self._callees[fi.qualname]
        out = []
        for n in iter_scope(fi.node):
            if not isinstance(n, ast.Call):
                continue
            out.append((n,) + self.resolve_call(fi, n))
        self._callees[fi.qualname] = out
        return out

    def dispatch_targets(self, cls, name):
        """The method `name` as seen from static class cls plus every override in subclasses."""
        out = []
        m = cls.find_method(name)
        if m:
            out.append(m)
        for sub in self.repo.subclasses(cls, strict=True):
            if name in sub.methods and sub.methods[name] not in out:
                out.append(sub.methods[name])
        return out

    def resolve_call(self, fi, call):
        func = call.func
        if isinstance(func, ast.Name):
            if func.id == "super":
                return ([], "ext")
            r = self.resolve_callee_expr(fi, func)
            if r is None:
                import builtins
                if hasattr(builtins, func.id):
                    return ([], "ext")
                return ([], "unknown")
            if r[0] == "func":
                return ([r[1]], "resolved")
            if r[0] == "class":
                init = r[1].find_method("__init__")
                return ([init] if init else [], "resolved")
            return ([], "ext")
        if isinstance(func, ast.Attribute):
            recv, name = func.value, func.attr
            # super().m(...)
            if isinstance(recv, ast.Call) and dotted_name(recv.func) == "super" and fi.cls is not None:
                start = fi.cls
                if recv.args and isinstance(recv.args[0], ast.Name):
                    c = self.repo.resolve_dotted(fi.module, recv.args[0].id)
                    if c and c[0] == "class":
                        start = c[1]
                mro = [c for c in start.mro()]
                for c in mro[1:]:
                    if isinstance(c, ClassInfo) and name in c.methods:
                        return ([c.methods[name]], "resolved")
                return ([], "ext")
            # user callbacks held in fields
            if isinstance(recv, ast.Attribute) and recv.attr in USER_CALLBACK_FIELDS:
                return ([], "callback")
            d = dotted_name(func)
            if d is not None and not d.startswith("self."):
                r = self.repo.resolve_dotted(fi.module, d)
                if r is not None:
                    if r[0] == "func":
                        return ([r[1]], "resolved")
                    if r[0] == "class":
                        init = r[1].find_method("__init__")
                        return ([init] if init else [], "resolved")
                    if r[0] == "ext":
                        return ([], "ext")
                # receiver is an imported external object (stdout.flush())
                rr = self.repo.resolve_dotted(fi.module, dotted_name(recv)) if dotted_name(recv) else None
                if rr is not None and rr[0] == "ext":
                    return ([], "ext")
            classes = self.expr_class(fi, recv)
            if classes:
                tg = []
                for c in classes:
                    for m in self.dispatch_targets(c, name):
                        if m not in tg:
                            tg.append(m)
                if tg:
                    return (tg, "resolved")
                return ([], "ext")
            cands = list(self._methods_by_name.get(name, []))
            if cands:
                return (cands, "cha")
            return ([], "unknown")
        return ([], "unknown")

    # ------------------------------------------------------------------------- graph
    def callers(self):
        if self._callers is None:
            self._callers = {}
            for f in self.repo.all_functions():
                for call, tg, kind in self.callees(f):
                    for t in tg:
                        self._callers.setdefault(t.qualname, []).append((f, call, kind))
        return self._callers

    def callers_of(self, fi, kinds=("resolved", "cha")):
        return [(f, c, k) for (f, c, k) in self.callers().get(fi.qualname, []) if k in kinds]

    def reaches(self, start, pred, kinds=("resolved", "cha"), stop=None, max_depth=12):
        """DFS over the call graph from FuncInfo `start`; returns a chain [(fi, call), ...] ending
        at the first call site for which pred(fi, call, targets, kind) is true, else None.
        `stop(fi)` prunes callees that must not be entered."""
        seen = set()

        def dfs(fi, depth):
            if fi.qualname in seen or depth > max_depth:
                return None
            seen.add(fi.qualname)
            for call, tg, kind in self.callees(fi):
                if pred(fi, call, tg, kind):
                    return [(fi, call)]
            for call, tg, kind in self.callees(fi):
                if kind not in kinds:
                    continue
                for t in tg:
                    if stop is not None and stop(t):
                        continue
                    r = dfs(t, depth + 1)
                    if r is not None:
                        return [(fi, call)] + r
            return None

        return dfs(start, 0)

    def transitive_callees(self, start, kinds=("resolved", "cha"), stop=None):
        seen = {}
        stack = [start]
        while stack:
            fi = stack.pop()
            if fi.qualname in seen:
                continue
            seen[fi.qualname] = fi
            for call, tg, kind in self.callees(fi):
                if kind not in kinds:
                    continue
                for t in tg:
                    if stop is not None and stop(t):
                        continue
                    stack.append(t)
        return seen


def fmt_chain(chain):
    return " -> ".join("%s:%d" % (fi.qualname, call.lineno) for fi, call in chain)
