"""Front end: loads /repo's asynq package as ASTs + .pxd declarations, builds module, class and
function tables.  Nothing from asynq is imported or executed."""
import ast
import hashlib
import os
import re

from .errors import AnalysisError

REPO = os.environ.get("VERIF_REPO", "/repo")


# ------------------------------------------------------------------------------------ pxd

C_INT_TYPES = {
    "char": 8, "short": 16, "int": 32, "long": 64, "long long": 64, "Py_ssize_t": 64,
    "unsigned int": 32, "unsigned long": 64, "unsigned long long": 64, "size_t": 64,
    "unsigned short": 16, "unsigned char": 8, "signed char": 8,
}
C_FLOAT_TYPES = {"float", "double", "long double"}


class PxdFunc(object):
    def __init__(self, name, kind, ret, params, exc, locals_, line, inline=False):
        self.name = name
        self.kind = kind  # cdef / cpdef
        self.ret = ret  # type string or None
        self.params = params  # list of (type or None, name, has_default)
        self.exc = exc
        self.locals = locals_  # dict name -> type
        self.line = line
        self.inline = inline

    def param_type(self, name):
        for t, n, _ in self.params:
            if n == name:
                return t
        return self.locals.get(name)


class PxdClass(object):
    def __init__(self, name, bases, line):
        self.name = name
        self.bases = bases
        self.line = line
        self.fields = {}  # name -> (type, visibility, line)
        self.methods = {}  # name -> PxdFunc


class PxdModule(object):
    def __init__(self, path):
        self.path = path
        self.classes = {}
        self.functions = {}
        self.vars = {}  # name -> type
        self.cimports = {}  # local name -> dotted


_TYPE_RE = r"(?:unsigned\s+|signed\s+)?(?:long\s+long|long\s+double|[A-Za-z_][\w\.]*)"


def _split_args(s):
    out, depth, cur = [], 0, ""
    for ch in s:
        if ch in "([":
            depth += 1
        elif ch in ")]":
            depth -= 1
        if ch == "," and depth == 0:
            out.append(cur.strip())
            cur = ""
        else:
            cur += ch
    if cur.strip():
        out.append(cur.strip())
    return out


def _parse_param(p):
    has_default = False
    if "=" in p:
        p = p.split("=")[0].strip()
        has_default = True
    m = re.match(r"^(" + _TYPE_RE + r")\s+(\w+)$", p)
    if m:
        return (re.sub(r"\s+", " ", m.group(1)), m.group(2), has_default)
    return (None, p.strip(), has_default)


def parse_pxd(path):
    mod = PxdModule(path)
    cur_cls = None
    pending_locals = {}
    with open(path) as f:
        lines = f.read().split("\n")
    i = 0
    while i < len(lines):
        raw = lines[i]
        lineno = i + 1
        i += 1
        line = raw.split("#")[0].rstrip()
        if not line.strip():
            continue
        indent = len(line) - len(line.lstrip())
        s = line.strip()
        if indent == 0:
            cur_cls = None
        m = re.match(r"^from\s+([\.\w]+)\s+cimport\s+(.+)$", s)
        if m:
            src = m.group(1)
            for part in m.group(2).split(","):
                part = part.strip()
                mm = re.match(r"^(\w+)(?:\s+as\s+(\w+))?$", part)
                if mm:
                    mod.cimports[mm.group(2) or mm.group(1)] = (src, mm.group(1))
            continue
        m = re.match(r"^cimport\s+([\.\w]+)(?:\s+as\s+(\w+))?$", s)
        if m:
            mod.cimports[m.group(2) or m.group(1)] = (m.group(1), None)
            continue
        if s.startswith("import "):
            continue
        m = re.match(r"^@cython\.locals\((.*)\)$", s)
        if m:
            for part in _split_args(m.group(1)):
                k, v = part.split("=")
                pending_locals[k.strip()] = v.strip()
            continue
        if s.startswith("@"):
            continue
        m = re.match(r"^cdef\s+class\s+(\w+)\s*(?:\((.*)\))?\s*:$", s)
        if m:
            bases = [b.strip() for b in (m.group(2) or "").split(",") if b.strip()]
            cur_cls = PxdClass(m.group(1), bases, lineno)
            mod.classes[cur_cls.name] = cur_cls
            pending_locals = {}
            continue
        if s == "pass":
            continue
        # function / method declaration
        m = re.match(
            r"^(cdef|cpdef)\s+(inline\s+)?(?:(" + _TYPE_RE + r")\s+)?(\w+)\s*\((.*)\)\s*(?:except\s*(\??\s*[-\w\*]+)|(noexcept))?$",
            s,
        )
        if m:
            kind, inline, ret, name, args, exc, noexc = m.groups()
            exc = "noexcept" if noexc else exc
            params = [_parse_param(p) for p in _split_args(args)]
            fn = PxdFunc(name, kind, ret, params, exc, pending_locals, lineno, bool(inline))
            pending_locals = {}
            if cur_cls is not None and indent > 0:
                cur_cls.methods[name] = fn
            else:
                mod.functions[name] = fn
            continue
        # field / variable declaration
        m = re.match(r"^cdef\s+(public\s+|readonly\s+)?(" + _TYPE_RE + r")\s+(\w+)$", s)
        if m:
            vis, typ, name = m.groups()
            typ = re.sub(r"\s+", " ", typ)
            if cur_cls is not None and indent > 0:
                cur_cls.fields[name] = (typ, (vis or "").strip() or "private", lineno)
            else:
                mod.vars[name] = typ
            continue
        raise AnalysisError("pxd: unrecognised declaration %s:%d: %r" % (path, lineno, s))
    return mod


# ------------------------------------------------------------------------------------ python


class FuncInfo(object):
    def __init__(self, qualname, module, cls, node, parent):
        self.qualname = qualname
        self.module = module
        self.cls = cls
        self.node = node
        self.parent = parent
        self.nested = {}
        self._cfg = None

    @property
    def name(self):
        return self.node.name

    @property
    def lineno(self):
        return self.node.lineno

    def loc(self):
        return "%s:%d" % (self.module.relpath, self.node.lineno)

    def pxd(self):
        """The PxdFunc describing this function, if any."""
        px = self.module.pxd
        if px is None:
            return None
        if self.cls is not None and self.parent is None:
            for c in self.cls.mro():
                if isinstance(c, ClassInfo) and c.pxd is not None and self.name in c.pxd.methods:
                    return c.pxd.methods[self.name]
            return None
        if self.parent is None:
            return px.functions.get(self.name)
        return None

    def __repr__(self):
        return "<fn %s>" % self.qualname


class ClassInfo(object):
    def __init__(self, module, node):
        self.module = module
        self.node = node
        self.name = node.name
        self.qualname = "%s.%s" % (module.name, node.name)
        self.methods = {}
        self.class_assigns = {}
        self.bases = []  # resolved lazily: ClassInfo or ('ext', dotted)
        self.pxd = module.pxd.classes.get(node.name) if module.pxd else None

    def mro(self):
        out, seen = [], set()

        def walk(c):
            if isinstance(c, ClassInfo):
                if c.qualname in seen:
                    return
                seen.add(c.qualname)
                out.append(c)
                for b in c.bases:
                    walk(b)
            else:
                if c not in out:
                    out.append(c)

        walk(self)
        return out

    def find_method(self, name):
        for c in self.mro():
            if isinstance(c, ClassInfo) and name in c.methods:
                return c.methods[name]
        return None

    def is_subclass_of(self, other):
        return any(isinstance(c, ClassInfo) and c is other for c in self.mro())

    def ext_bases(self):
        return [c[1] for c in self.mro() if not isinstance(c, ClassInfo)]

    def fields(self):
        """Declared/assigned instance field names over the MRO: name -> list of origins."""
        out = {}
        for c in self.mro():
            if not isinstance(c, ClassInfo):
                continue
            if c.pxd:
                for n, (t, v, ln) in c.pxd.fields.items():
                    out.setdefault(n, []).append(("pxd", c, t))
            for n in c.class_assigns:
                out.setdefault(n, []).append(("class", c, None))
            for m in c.methods.values():
                for sub in ast.walk(m.node):
                    if isinstance(sub, ast.Attribute) and isinstance(sub.ctx, ast.Store):
                        if isinstance(sub.value, ast.Name) and sub.value.id == "self":
                            out.setdefault(sub.attr, []).append(("store", c, None))
        return out

    def field_type(self, name):
        for c in self.mro():
            if isinstance(c, ClassInfo) and c.pxd and name in c.pxd.fields:
                return c.pxd.fields[name][0], c
        return None, None

    def __repr__(self):
        return "<class %s>" % self.qualname


class Module(object):
    def __init__(self, repo, name, path, src=None, tree=None):
        self.repo = repo
        self.name = name  # short name, e.g. 'scheduler'
        self.path = path
        self.relpath = os.path.relpath(path, repo.root)
        if src is None:
            with open(path) as f:
                src = f.read()
        self.src = src
        self.lines = self.src.split("\n")
        from .inline import inline_module, normalize_module, unrename_module
        self.unrenamed = getattr(tree, "_unrenamed", {}) if tree is not None else {}
        if tree is None:
            tree = ast.parse(self.src, path)
            self.unrenamed = unrename_module(tree, name)
            normalize_module(tree)
        self.tree = tree
        self.inlined = inline_module(self.tree, name)  # {class name or None: helper names analysed at their call sites}
        if any(self.inlined.values()) if isinstance(self.inlined, dict) else self.inlined:
            from .inline import post_inline_normalize
            post_inline_normalize(self.tree)
        for parent in ast.walk(self.tree):
            for child in ast.iter_child_nodes(parent):
                child._parent = parent
        pxd_path = path[:-3] + ".pxd"
        self.pxd = parse_pxd(pxd_path) if os.path.exists(pxd_path) else None
        self.pxd_path = pxd_path if self.pxd else None
        if self.pxd is not None:
            for cname, mapping in self.unrenamed.items():
                pc = self.pxd.classes.get(cname)
                if pc is not None:
                    for new_, old_ in mapping.items():
                        if new_ in pc.methods and old_ not in pc.methods:
                            pc.methods[old_] = pc.methods.pop(new_)
                            if hasattr(pc.methods[old_], "name"):
                                pc.methods[old_].name = old_
        self.imports = {}  # local name -> ('mod', dotted) | ('name', dotted module, attr)
        self.classes = {}
        self.functions = {}  # top level functions
        self.all_functions = {}  # qualname -> FuncInfo
        self.assigns = []  # module-level (targets, value, node)
        self._index()

    def _abs(self, level, module):
        if level == 0:
            return module
        base = "asynq"
        return base + ("." + module if module else "")

    def _index(self):
        for node in ast.walk(self.tree):
            if isinstance(node, ast.Import):
                for a in node.names:
                    local = a.asname or a.name.split(".")[0]
                    self.imports[local] = ("mod", a.name if a.asname else a.name.split(".")[0])
            elif isinstance(node, ast.ImportFrom):
                src = self._abs(node.level, node.module)
                for a in node.names:
                    self.imports[a.asname or a.name] = ("name", src, a.name)
        for node in self.tree.body:
            if isinstance(node, ast.ClassDef):
                ci = ClassInfo(self, node)
                self.classes[node.name] = ci
                for sub in node.body:
                    if isinstance(sub, (ast.FunctionDef, ast.AsyncFunctionDef)):
                        fi = FuncInfo("%s.%s.%s" % (self.name, node.name, sub.name), self, ci, sub, None)
                        ci.methods[sub.name] = fi
                        self._register(fi)
                    elif isinstance(sub, ast.Assign):
                        for t in sub.targets:
                            if isinstance(t, ast.Name):
                                ci.class_assigns[t.id] = sub
                    elif isinstance(sub, ast.AnnAssign) and isinstance(sub.target, ast.Name):
                        ci.class_assigns[sub.target.id] = sub
            elif isinstance(node, (ast.FunctionDef, ast.AsyncFunctionDef)):
                fi = FuncInfo("%s.%s" % (self.name, node.name), self, None, node, None)
                self.functions[node.name] = fi
                self._register(fi)

    def _register(self, fi):
        self.all_functions[fi.qualname] = fi
        for sub in iter_scope(fi.node):
            if isinstance(sub, (ast.FunctionDef, ast.AsyncFunctionDef)):
                q = "%s.%s" % (fi.qualname, sub.name)
                # two nested functions may share a name (convert_asynq_to_async.wrapped)
                k = 2
                while q in self.all_functions:
                    q = "%s.%s#%d" % (fi.qualname, sub.name, k)
                    k += 1
                nf = FuncInfo(q, self, fi.cls, sub, fi)
                fi.nested[q.rsplit(".", 1)[1]] = nf
                self._register(nf)

    def line(self, n):
        return self.lines[n - 1] if 0 < n <= len(self.lines) else ""


def iter_scope(fn_node):
    """Yields nodes in the body of fn_node without descending into nested function/class/lambda
    bodies (the nested def node itself is yielded)."""
    stack = list(reversed(fn_node.body)) if hasattr(fn_node, "body") and isinstance(fn_node.body, list) else [fn_node.body]
    while stack:
        n = stack.pop()
        yield n
        if isinstance(n, (ast.FunctionDef, ast.AsyncFunctionDef, ast.ClassDef, ast.Lambda)):
            continue
        stack.extend(reversed(list(ast.iter_child_nodes(n))))


def walk_expr(node):
    """ast.walk that does not descend into lambdas / nested defs (but yields them)."""
    stack = [node]
    while stack:
        n = stack.pop()
        yield n
        if n is not node and isinstance(n, (ast.FunctionDef, ast.AsyncFunctionDef, ast.ClassDef, ast.Lambda)):
            continue
        stack.extend(reversed(list(ast.iter_child_nodes(n))))


class Repo(object):
    def __init__(self, root=None):
        self.root = root or REPO
        self.pkg = os.path.join(self.root, "asynq")
        if not os.path.isdir(self.pkg):
            raise AnalysisError("package directory %s not found" % self.pkg)
        self.modules = {}
        self.digests = {}
        from .inline import normalize_module, normalize_package
        parsed = {}
        for fn in sorted(os.listdir(self.pkg)):
            if fn.endswith(".py"):
                name = fn[:-3]
                path = os.path.join(self.pkg, fn)
                try:
                    with open(path) as f:
                        src = f.read()
                    tree = ast.parse(src, path)
                except SyntaxError as e:
                    raise AnalysisError("cannot parse %s: %s" % (path, e))
                from .inline import unrename_module
                tree._unrenamed = unrename_module(tree, name)
                normalize_module(tree)
                parsed[name] = (path, src, tree)
        self.package_notes = normalize_package(dict((n, v[2]) for n, v in parsed.items()))
        for name in sorted(parsed):
            path, src, tree = parsed[name]
            if True:
                self.modules[name] = Module(self, name, path, src, tree)
                self._digest(path)
                if self.modules[name].pxd_path:
                    self._digest(self.modules[name].pxd_path)
        self.cython_modules = self._read_setup()
        self._resolve_bases()

    def _digest(self, path):
        with open(path, "rb") as f:
            self.digests[os.path.relpath(path, self.root)] = hashlib.sha256(f.read()).hexdigest()[:16]

    def _read_setup(self):
        path = os.path.join(self.root, "setup.py")
        if not os.path.exists(path):
            raise AnalysisError("setup.py not found")
        self._digest(path)
        tree = ast.parse(open(path).read())
        for node in tree.body:
            if isinstance(node, ast.Assign) and any(
                isinstance(t, ast.Name) and t.id == "CYTHON_MODULES" for t in node.targets
            ):
                mods = [e.value for e in node.value.elts]
                for m in mods:
                    if m not in self.modules:
                        raise AnalysisError("setup.py lists Cython module %r that is not on disk" % m)
                return mods
        raise AnalysisError("CYTHON_MODULES not found in setup.py")

    # -- name resolution ---------------------------------------------------------------
    def resolve_dotted(self, module, dotted):
        """Resolve a dotted name used in `module` to ('class', ClassInfo) | ('func', FuncInfo) |
        ('module', Module) | ('ext', 'qcore.events.EventHook') | ('var', Module, name) | None."""
        parts = dotted.split(".")
        head = parts[0]
        cur = None
        if head in module.classes:
            cur = ("class", module.classes[head])
        elif head in module.functions:
            cur = ("func", module.functions[head])
        elif head in module.imports:
            imp = module.imports[head]
            if imp[0] == "mod":
                cur = self._mod_ref(imp[1])
            else:
                base = self._mod_ref(imp[1])
                cur = self._attr_of(base, imp[2])
        else:
            for targets, value, node in self.module_assigns(module):
                if head in targets:
                    cur = ("var", module, head)
        if cur is None:
            return None
        for p in parts[1:]:
            cur = self._attr_of(cur, p)
            if cur is None:
                return None
        return cur

    def _mod_ref(self, dotted):
        if dotted == "asynq":
            return ("pkg", "asynq")
        if dotted.startswith("asynq."):
            name = dotted.split(".", 1)[1]
            if name in self.modules:
                return ("module", self.modules[name])
            return None
        return ("ext", dotted)

    def _attr_of(self, ref, attr):
        if ref is None:
            return None
        kind = ref[0]
        if kind == "pkg":
            if attr in self.modules:
                return ("module", self.modules[attr])
            # names re-exported by asynq/__init__
            init = self.modules.get("__init__")
            if init and attr in init.imports:
                imp = init.imports[attr]
                if imp[0] == "name":
                    return self._attr_of(self._mod_ref(imp[1]), imp[2])
            return None
        if kind == "module":
            m = ref[1]
            if attr in m.classes:
                return ("class", m.classes[attr])
            if attr in m.functions:
                return ("func", m.functions[attr])
            if attr in m.imports:
                imp = m.imports[attr]
                if imp[0] == "mod":
                    return self._mod_ref(imp[1])
                return self._attr_of(self._mod_ref(imp[1]), imp[2])
            for targets, value, node in self.module_assigns(m):
                if attr in targets:
                    return ("var", m, attr)
            return None
        if kind == "ext":
            return ("ext", ref[1] + "." + attr)
        if kind == "class":
            meth = ref[1].find_method(attr)
            if meth:
                return ("func", meth)
            return None
        return None

    def module_assigns(self, module):
        if not module.assigns:
            for node in module.tree.body:
                if isinstance(node, ast.Assign):
                    names = [t.id for t in node.targets if isinstance(t, ast.Name)]
                    module.assigns.append((names, node.value, node))
                elif isinstance(node, ast.AnnAssign) and isinstance(node.target, ast.Name):
                    module.assigns.append(([node.target.id], node.value, node))
        return module.assigns

    def _resolve_bases(self):
        for m in self.modules.values():
            for c in m.classes.values():
                for b in c.node.bases:
                    d = dotted_name(b)
                    if d is None:
                        raise AnalysisError("unsupported base class expression in %s" % c.qualname)
                    if d == "object":
                        continue
                    r = self.resolve_dotted(m, d)
                    if r is None:
                        c.bases.append(("ext", d))
                    elif r[0] == "class":
                        c.bases.append(r[1])
                    elif r[0] == "ext":
                        c.bases.append(("ext", r[1]))
                    elif r[0] == "var":
                        # alias such as `_patch = mock._patch`
                        val = self.var_value(r[1], r[2])
                        dd = dotted_name(val) if val is not None else None
                        rr = self.resolve_dotted(r[1], dd) if dd else None
                        if rr and rr[0] == "ext":
                            c.bases.append(("ext", rr[1]))
                        elif rr and rr[0] == "class":
                            c.bases.append(rr[1])
                        else:
                            c.bases.append(("ext", d))
                    else:
                        c.bases.append(("ext", d))

    def var_value(self, module, name):
        val = None
        for targets, value, node in self.module_assigns(module):
            if name in targets:
                val = value
        return val

    # -- lookups -------------------------------------------------------------------------
    def cls(self, qual):
        mod, name = qual.split(".")
        try:
            return self.modules[mod].classes[name]
        except KeyError:
            raise AnalysisError("anchor vanished: class %s" % qual)

    def fn(self, qual):
        mod = qual.split(".")[0]
        if mod not in self.modules:
            raise AnalysisError("anchor vanished: module %s" % mod)
        f = self.modules[mod].all_functions.get(qual)
        if f is None:
            raise AnalysisError("anchor vanished: function %s" % qual)
        return f

    def fn_opt(self, qual):
        mod = qual.split(".")[0]
        if mod not in self.modules:
            return None
        return self.modules[mod].all_functions.get(qual)

    def all_classes(self):
        for m in self.modules.values():
            for c in m.classes.values():
                yield c

    def all_functions(self):
        for m in self.modules.values():
            for f in m.all_functions.values():
                yield f

    def subclasses(self, cls, strict=False):
        return [c for c in self.all_classes() if c.is_subclass_of(cls) and not (strict and c is cls)]


def dotted_name(expr):
    if isinstance(expr, ast.Name):
        return expr.id
    if isinstance(expr, ast.Attribute):
        b = dotted_name(expr.value)
        return None if b is None else b + "." + expr.attr
    return None
