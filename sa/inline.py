"""Helper inlining on the AST, so that "extract a few statements into a new private helper" is a
non-event for the rules.

Only functions that did not exist on the pinned tree (sa/baseline_functions.txt) are ever inlined:
every function the rules know by role or name keeps its identity.  A new private helper
(`_name`, not a dunder) defined in the same class / module is inlined at each call site of the
forms `self._h(args)` / `_h(args)` used as a statement, as `return <call>` or as `x = <call>`
when its shape allows it (no yield, no recursion, no *args/**kwargs, returns only in tail
position).  Helpers all of whose call sites were inlined are dropped from the function tables -
their code is analysed where it runs.  When a helper cannot be inlined it is left alone (the
rules then see a call to an unknown private method and decide or give up as usual)."""
import ast
import copy
import os

HERE = os.path.dirname(os.path.abspath(__file__))
_baseline = None


def baseline():
    global _baseline
    if _baseline is None:
        p = os.path.join(HERE, "baseline_functions.txt")
        _baseline = set()
        if os.path.exists(p):
            with open(p) as f:
                _baseline = set(l.strip() for l in f if l.strip())
    return _baseline


def _has(node, types):
    for n in ast.walk(node):
        if n is not node and isinstance(n, (ast.FunctionDef, ast.AsyncFunctionDef, ast.Lambda)):
            continue
        if isinstance(n, types):
            return True
    return False


def _own_nodes(fn):
    """Nodes of fn's body not inside nested function definitions."""
    stack = list(fn.body)
    while stack:
        n = stack.pop()
        yield n
        if isinstance(n, (ast.FunctionDef, ast.AsyncFunctionDef, ast.Lambda, ast.ClassDef)):
            continue
        stack.extend(ast.iter_child_nodes(n))


def _returns(fn):
    return [n for n in _own_nodes(fn) if isinstance(n, ast.Return)]


def _tail_only_returns(fn):
    """Every Return is in tail position (last statement of the function, possibly nested in the
    last if/else / try of a tail position)."""
    tails = set()

    def mark(stmts):
        if not stmts:
            return
        last = stmts[-1]
        tails.add(id(last))
        if isinstance(last, ast.If):
            mark(last.body)
            mark(last.orelse)
        elif isinstance(last, ast.Try) and not last.orelse and not last.finalbody:
            # `try: ...; return A  except E: ...; return B` as the last statement: the value expressions stay inside the try
            mark(last.body)
            for h in last.handlers:
                mark(h.body)
    mark(fn.body)
    return all(id(r) in tails for r in _returns(fn))


def _locals_of(fn):
    out = set()
    for n in _own_nodes(fn):
        if isinstance(n, ast.Name) and isinstance(n.ctx, (ast.Store, ast.Del)):
            out.add(n.id)
        elif isinstance(n, (ast.FunctionDef, ast.AsyncFunctionDef, ast.ClassDef)):
            out.add(n.name)
        elif isinstance(n, ast.ExceptHandler) and n.name:
            out.add(n.name)
    return out


def _names_of(fn):
    out = set(a.arg for a in fn.args.posonlyargs + fn.args.args + fn.args.kwonlyargs)
    if fn.args.vararg:
        out.add(fn.args.vararg.arg)
    if fn.args.kwarg:
        out.add(fn.args.kwarg.arg)
    for n in ast.walk(fn):
        if isinstance(n, ast.Name):
            out.add(n.id)
    return out


class _Subst(ast.NodeTransformer):
    def __init__(self, mapping, rename):
        self.mapping = mapping
        self.rename = rename

    def visit_Name(self, node):
        if node.id in self.mapping and isinstance(node.ctx, ast.Load):
            new = copy.deepcopy(self.mapping[node.id])
            return ast.copy_location(new, node)
        if node.id in self.rename:
            return ast.copy_location(ast.Name(id=self.rename[node.id], ctx=node.ctx), node)
        return node

    def visit_FunctionDef(self, node):
        if node.name in self.rename:
            node.name = self.rename[node.name]
        self.generic_visit(node)
        return node

    def visit_ExceptHandler(self, node):
        if node.name and node.name in self.rename:
            node.name = self.rename[node.name]
        self.generic_visit(node)
        return node


def _simple(e):
    if isinstance(e, (ast.Name, ast.Constant)):
        return True
    if isinstance(e, ast.Attribute):
        return _simple(e.value)
    return False


def _bind(call, helper, is_method):
    """param -> argument expression, or None when the call cannot be bound simply."""
    a = helper.args
    if a.vararg or a.kwarg or a.kwonlyargs or a.posonlyargs:
        return None
    if any(isinstance(x, ast.Starred) for x in call.args) or any(k.arg is None for k in call.keywords):
        return None
    params = [p.arg for p in a.args]
    mapping = {}
    if is_method:
        if not params:
            return None
        mapping[params[0]] = ast.Name(id="self", ctx=ast.Load())
        params = params[1:]
    if len(call.args) > len(params):
        return None
    for p, v in zip(params, call.args):
        mapping[p] = v
    for k in call.keywords:
        if k.arg not in params or k.arg in mapping:
            return None
        mapping[k.arg] = k.value
    defaults = dict(zip([p.arg for p in a.args][len(a.args) - len(a.defaults):], a.defaults))
    for p in params:
        if p not in mapping:
            if p in defaults:
                mapping[p] = defaults[p]
            else:
                return None
    return mapping


def _decision_expr(stmts):
    """Boolean-valued expression equivalent to a side-effect-free body made only of
    `if c: <decision list>` / `return <expr>` statements, or None."""
    stmts = [s_ for s_ in stmts if not (isinstance(s_, ast.Expr) and isinstance(s_.value, ast.Constant))]
    if not stmts:
        return None
    first = stmts[0]
    if isinstance(first, ast.Return):
        return first.value if first.value is not None else ast.Constant(value=None)
    if isinstance(first, ast.If):
        a = _decision_expr(first.body)
        rest = list(first.orelse) + list(stmts[1:]) if first.orelse else list(stmts[1:])
        b = _decision_expr(first.orelse) if first.orelse and _all_return(first.orelse) else _decision_expr(rest)
        if a is None or b is None or not _all_return(first.body):
            return None
        return ast.IfExp(test=first.test, body=a, orelse=b)
    return None


def _all_return(stmts):
    """Every path through stmts ends in a return."""
    if not stmts:
        return False
    last = stmts[-1]
    if isinstance(last, ast.Return):
        return True
    if isinstance(last, ast.If) and last.orelse:
        return _all_return(last.body) and _all_return(last.orelse)
    return False


def _pure_decision(helper):
    """A helper whose body is a side-effect-free decision list (`if c: return A` ... `return B`): usable in expression position."""
    if isinstance(helper, ast.AsyncFunctionDef) or helper.decorator_list or _has(helper, (ast.Yield, ast.YieldFrom, ast.Await, ast.Global, ast.Nonlocal)):
        return False
    hb = [s_ for s_ in helper.body if not (isinstance(s_, ast.Expr) and isinstance(s_.value, ast.Constant))]
    if any(isinstance(x, (ast.Assign, ast.AugAssign, ast.Expr, ast.For, ast.While, ast.Try, ast.With, ast.Raise, ast.Delete)) for s_ in hb for x in ast.walk(s_)):
        return False
    if any(isinstance(n, ast.Call) and isinstance(n.func, ast.Name) and n.func.id == helper.name for n in ast.walk(helper)):
        return False
    return _decision_expr(hb) is not None


def _inlinable(helper):
    if isinstance(helper, ast.AsyncFunctionDef):
        return False
    if helper.decorator_list:
        return False
    if _has(helper, (ast.Yield, ast.YieldFrom, ast.Await, ast.Global, ast.Nonlocal)):
        return False
    for n in _own_nodes(helper):
        if isinstance(n, ast.Call):
            f = n.func
            if isinstance(f, ast.Attribute) and isinstance(f.value, ast.Name) and f.value.id == "self" and f.attr == helper.name:
                return False
            if isinstance(f, ast.Name) and f.id == helper.name:
                return False
    return _tail_only_returns(helper)


def _expand(call, helper, is_method, context, target, caller):
    """Statement list replacing the call, or None."""
    mapping = _bind(call, helper, is_method)
    if mapping is None:
        return None
    rets = _returns(helper)
    valued = [r for r in rets if r.value is not None]
    if context == "stmt" and valued and not all(isinstance(r.value, ast.Constant) for r in valued):
        return None     # (a constant result that the caller discards - a cdef method's `return 0` status - is dropped below)
    multi_assign = False
    if context == "assign":
        if len(rets) != 1 or rets[0] is not helper.body[-1] or rets[0].value is None:
            # several returns, each the last statement of an arm of a final if/elif/else whose other arms return or raise:
            # each `return V` becomes `target = V`
            def ends(stmts):
                if not stmts:
                    return False
                last = stmts[-1]
                if isinstance(last, ast.Return):
                    return last.value is not None
                if isinstance(last, ast.Raise):
                    return True
                if isinstance(last, ast.If) and last.orelse:
                    return ends(last.body) and ends(last.orelse)
                if isinstance(last, ast.Try) and not last.orelse and not last.finalbody and last.handlers:
                    return ends(last.body) and all(ends(h.body) for h in last.handlers)
                return False
            if not (valued and len(valued) == len(rets) and ends(helper.body)):
                return None
            multi_assign = True
    pre = []
    # parameters assigned inside the helper, or bound to non-simple arguments used more than once, become locals
    stored = set(n.id for n in _own_nodes(helper) if isinstance(n, ast.Name) and isinstance(n.ctx, ast.Store))
    uses = {}
    for n in ast.walk(helper):
        if isinstance(n, ast.Name) and isinstance(n.ctx, ast.Load):
            uses[n.id] = uses.get(n.id, 0) + 1
    caller_names = _names_of(caller)
    rename = {}
    for loc in _locals_of(helper):
        if loc in mapping and loc not in stored:
            continue
        if loc in caller_names:
            rename[loc] = loc + "__inl"
    final_map = {}
    for p, v in mapping.items():
        if p in stored or (not _simple(v) and uses.get(p, 0) > 1):
            newname = rename.get(p, p if p not in caller_names else p + "__inl")
            rename[p] = newname
            pre.append(ast.copy_location(ast.Assign(targets=[ast.Name(id=newname, ctx=ast.Store())], value=copy.deepcopy(v), lineno=call.lineno), call))
        else:
            final_map[p] = v
    body = [copy.deepcopy(s) for s in helper.body]
    # drop a leading docstring
    if body and isinstance(body[0], ast.Expr) and isinstance(body[0].value, ast.Constant) and isinstance(body[0].value.value, str):
        body = body[1:]
    sub = _Subst(final_map, rename)
    body = [sub.visit(s) for s in body]
    for s in pre:
        ast.fix_missing_locations(s)
    if context == "stmt":
        # a trailing bare `return` is dropped
        def strip(stmts):
            if stmts and isinstance(stmts[-1], ast.Return) and (stmts[-1].value is None or isinstance(stmts[-1].value, ast.Constant)):
                stmts.pop()
                if not stmts:
                    stmts.append(ast.Pass())
            elif stmts and isinstance(stmts[-1], ast.If):
                strip(stmts[-1].body)
                if stmts[-1].orelse:
                    strip(stmts[-1].orelse)
            elif stmts and isinstance(stmts[-1], ast.Try) and not stmts[-1].orelse and not stmts[-1].finalbody:
                strip(stmts[-1].body)
                for h in stmts[-1].handlers:
                    strip(h.body)
        strip(body)
        if not body:
            body = [ast.Pass()]
    elif context == "return":
        last = body[-1] if body else None
        if not isinstance(last, (ast.Return, ast.Raise)):
            body.append(ast.Return(value=ast.Constant(value=None)))
    elif context == "assign" and multi_assign:
        def to_assign(stmts):
            last = stmts[-1]
            if isinstance(last, ast.Return):
                stmts[-1] = ast.Assign(targets=[copy.deepcopy(target)], value=last.value)
            elif isinstance(last, ast.If):
                to_assign(last.body)
                to_assign(last.orelse)
            elif isinstance(last, ast.Try):
                to_assign(last.body)
                for h in last.handlers:
                    to_assign(h.body)
        to_assign(body)
    elif context == "assign":
        ret = body.pop()
        body.append(ast.Assign(targets=[copy.deepcopy(target)], value=ret.value))
    out = pre + body
    for s in out:
        for n in ast.walk(s):
            if not hasattr(n, "lineno"):
                n.lineno = call.lineno
                n.col_offset = 0
            if not hasattr(n, "end_lineno") or n.end_lineno is None:
                n.end_lineno = getattr(n, "lineno", call.lineno)
                n.end_col_offset = 0
    return out


def _guards_to_else(helper):
    """   if c: [..;] return          if c: [..] else: rest      A private helper that leaves early without a value is put into the
          rest                  ->                               form with tail returns only, so that it can be expanded at its call sites."""
    def fold(stmts):
        for i, st in enumerate(stmts):
            if isinstance(st, ast.If) and not st.orelse and st.body and isinstance(st.body[-1], ast.Return) and i + 1 < len(stmts) \
                    and not any(isinstance(y, ast.Return) for b in st.body[:-1] for y in ast.walk(b)):
                rest = stmts[i + 1:]
                fold(rest)
                if st.body[-1].value is None:
                    st.body = st.body[:-1] or [ast.copy_location(ast.Pass(), st)]
                # (a valued early return stays: both arms of the if/else then end in a return, which the expansion turns into
                # assignments to the call's target)
                st.orelse = rest
                del stmts[i + 1:]
                return
    fold(helper.body)


def inline_module(tree, modname):
    """Rewrites `tree` in place.  Returns {class name or None: set(helper names dropped)}."""
    base = baseline()
    if not base:
        return {}
    dropped = {}
    classes = dict((c.name, c) for c in tree.body if isinstance(c, ast.ClassDef))

    def own_helpers(cname, body):
        out = {}
        for f in body:
            if not isinstance(f, (ast.FunctionDef, ast.AsyncFunctionDef)):
                continue
            name = f.name
            qual = "%s.%s" % (modname, name) if cname is None else "%s.%s.%s" % (modname, cname, name)
            if qual in base or not name.startswith("_") or (name.startswith("__") and name.endswith("__")):
                continue
            if not _inlinable(f) and not _pure_decision(f):
                _guards_to_else(f)
            if _inlinable(f) or _pure_decision(f):
                out[name] = f
        return out

    def base_chain(cname, seen=()):
        out = []
        c = classes.get(cname)
        if c is None or cname in seen:
            return out
        for b in c.bases:
            bn = b.id if isinstance(b, ast.Name) else None
            if bn in classes:
                out.append(bn)
                out += base_chain(bn, seen + (cname,))
        return out

    owner_body = {}
    scopes = [(None, tree.body)] + [(c.name, c.body) for c in tree.body if isinstance(c, ast.ClassDef)]
    for cname, body in scopes:
        funcs = dict((f.name, f) for f in body if isinstance(f, (ast.FunctionDef, ast.AsyncFunctionDef)))
        helpers = own_helpers(cname, body)
        for h in helpers:
            owner_body[id(helpers[h])] = (cname, body)
        if cname is not None:
            # private helpers of base classes of the same module are visible through self, unless overridden
            for bn in base_chain(cname):
                for hn, hf in own_helpers(bn, classes[bn].body).items():
                    if hn not in funcs and hn not in helpers:
                        helpers[hn] = hf
                        owner_body[id(hf)] = (bn, classes[bn].body)
        if not helpers:
            continue
        remaining = dict((h, 0) for h in helpers)
        inlined = dict((h, 0) for h in helpers)
        # callers: for the module scope every function of the module (incl. methods); for a class its methods
        if cname is None:
            callers = [f for f in ast.walk(tree) if isinstance(f, (ast.FunctionDef, ast.AsyncFunctionDef))]
        else:
            callers = list(funcs.values())
        for _round in range(3):
            changed = False
            for caller in callers:
                def match(call):
                    f = call.func
                    if cname is None and isinstance(f, ast.Name) and f.id in helpers and helpers[f.id] is not caller:
                        return helpers[f.id]
                    if cname is not None and isinstance(f, ast.Attribute) and isinstance(f.value, ast.Name) and f.value.id == "self" \
                            and f.attr in helpers and helpers[f.attr] is not caller:
                        return helpers[f.attr]
                    return None

                def rewrite(stmts):
                    nonlocal changed
                    i = 0
                    while i < len(stmts):
                        s = stmts[i]
                        rep = None
                        # f(helper(...), names..) with helper the first argument of a plain call and only names after it: the helper's result is named first
                        # (`t = helper(...)`; `... f(t)`), which is the same evaluation order, so that it can be expanded below
                        v0 = getattr(s, "value", None)
                        if isinstance(s, (ast.Assign, ast.Return, ast.Expr)) and isinstance(v0, ast.Call) and match(v0) is None \
                                and len(v0.args) >= 1 and not v0.keywords and isinstance(v0.args[0], ast.Call) and match(v0.args[0]) is not None \
                                and all(isinstance(a_, (ast.Name, ast.Constant)) for a_ in v0.args[1:]) \
                                and _inlinable(match(v0.args[0])) and not _pure_decision(match(v0.args[0])) \
                                and (isinstance(v0.func, ast.Name) or (isinstance(v0.func, ast.Attribute) and (_is_chain(v0.func) or isinstance(v0.func.value, ast.Constant)))):
                            tmpn = "%s__val" % match(v0.args[0]).name.lstrip("_")
                            if not any(isinstance(y, ast.Name) and y.id == tmpn for y in ast.walk(caller)):
                                pre_ = ast.Assign(targets=[ast.Name(id=tmpn, ctx=ast.Store())], value=v0.args[0])
                                ast.copy_location(pre_, s)
                                v0.args[0] = ast.copy_location(ast.Name(id=tmpn, ctx=ast.Load()), v0)
                                ast.fix_missing_locations(pre_)
                                stmts[i:i] = [pre_]
                                s = pre_
                                changed = True
                        # helper(...)(args): the helper's result is the callee - named first as well (the callee is evaluated
                        # before the arguments, so the order is the same)
                        v0 = getattr(s, "value", None)
                        if isinstance(s, (ast.Assign, ast.Return, ast.Expr)) and isinstance(v0, ast.Call) and isinstance(v0.func, ast.Call) \
                                and match(v0.func) is not None and _inlinable(match(v0.func)) and not _pure_decision(match(v0.func)):
                            tmpn = "%s__val" % match(v0.func).name.lstrip("_")
                            if not any(isinstance(y, ast.Name) and y.id == tmpn for y in ast.walk(caller)):
                                pre_ = ast.Assign(targets=[ast.Name(id=tmpn, ctx=ast.Store())], value=v0.func)
                                ast.copy_location(pre_, s)
                                v0.func = ast.copy_location(ast.Name(id=tmpn, ctx=ast.Load()), v0)
                                ast.fix_missing_locations(pre_)
                                stmts[i:i] = [pre_]
                                s = pre_
                                changed = True
                        if isinstance(s, ast.Expr) and isinstance(s.value, ast.Call) and match(s.value) is not None and _inlinable(match(s.value)):
                            rep = _expand(s.value, match(s.value), cname is not None, "stmt", None, caller)
                        elif isinstance(s, ast.Return) and isinstance(s.value, ast.Call) and match(s.value) is not None and _inlinable(match(s.value)):
                            rep = _expand(s.value, match(s.value), cname is not None, "return", None, caller)
                        elif isinstance(s, ast.Assign) and len(s.targets) == 1 and isinstance(s.value, ast.Call) and match(s.value) is not None and _inlinable(match(s.value)):
                            rep = _expand(s.value, match(s.value), cname is not None, "assign", s.targets[0], caller)
                        if rep is not None:
                            h = match(s.value)
                            inlined[h.name] += 1
                            stmts[i:i + 1] = rep
                            changed = True
                            i += len(rep)
                            continue
                        for fld in ("body", "orelse", "finalbody"):
                            sub = getattr(s, fld, None)
                            if isinstance(sub, list) and not isinstance(s, (ast.FunctionDef, ast.AsyncFunctionDef, ast.ClassDef)):
                                rewrite(sub)
                            elif isinstance(sub, list) and isinstance(s, ast.FunctionDef) and cname is not None \
                                    and "self" not in [a.arg for a in s.args.args + s.args.kwonlyargs]:
                                # a closure of a method sees the method's self: helpers called through it are expanded there too
                                rewrite(sub)
                        for h in getattr(s, "handlers", []) or []:
                            rewrite(h.body)
                        i += 1
                rewrite(caller.body)
                # helpers that are a single `return <expr>` are also substituted in expression position
                is_method_scope = cname is not None
                class ExprInl(ast.NodeTransformer):
                    def visit_FunctionDef(self, node):
                        if node is not caller:
                            return node
                        self.generic_visit(node)
                        return node
                    visit_AsyncFunctionDef = visit_FunctionDef

                    def visit_Lambda(self, node):
                        self.generic_visit(node)
                        return node

                    def visit_Call(self, node):
                        self.generic_visit(node)
                        h = match(node)
                        if h is None:
                            return node
                        hb = [s_ for s_ in h.body if not (isinstance(s_, ast.Expr) and isinstance(s_.value, ast.Constant))]
                        if len(hb) == 1 and isinstance(hb[0], ast.Return) and hb[0].value is not None:
                            expr = hb[0].value
                        else:
                            # a side-effect-free decision list (`if c: return A` ... `return B`) is a conditional expression
                            if any(isinstance(x, (ast.Assign, ast.AugAssign, ast.Expr, ast.For, ast.While, ast.Try, ast.With, ast.Raise)) for s_ in hb for x in ast.walk(s_)
                                   if not (isinstance(x, ast.Expr) and isinstance(x.value, ast.Constant))):
                                return node
                            expr = _decision_expr(hb)
                            if expr is None:
                                return node
                        mapping = _bind(node, h, is_method_scope)
                        if mapping is None:
                            return node
                        # an argument that is not a plain name may be substituted when the parameter occurs exactly once in
                        # the helper's expression (it is then evaluated once, as at the call)
                        occ = {}
                        for y in ast.walk(expr):
                            if isinstance(y, ast.Name):
                                occ[y.id] = occ.get(y.id, 0) + 1
                        if not all(_simple(v) or occ.get(p_, 0) == 1 for p_, v in mapping.items()):
                            return node
                        new = _Subst(mapping, {}).visit(copy.deepcopy(expr))
                        for n_ in ast.walk(new):
                            n_.lineno = getattr(node, "lineno", 1)
                            n_.col_offset = getattr(node, "col_offset", 0)
                            n_.end_lineno = getattr(node, "end_lineno", n_.lineno)
                            n_.end_col_offset = getattr(node, "end_col_offset", 0)
                        inlined[h.name] += 1
                        nonlocal_changed[0] = True
                        return new
                nonlocal_changed = [False]
                ExprInl().visit(caller)
                if nonlocal_changed[0]:
                    changed = True
            if not changed:
                break
        # remaining (non-inlined) references anywhere in the module
        for n in ast.walk(tree):
            if isinstance(n, ast.Attribute) and n.attr in helpers and cname is not None:
                remaining[n.attr] += 1
            elif isinstance(n, ast.Name) and n.id in helpers and cname is None and isinstance(n.ctx, ast.Load):
                remaining[n.id] += 1
        for h, f in helpers.items():
            # references inside the helper's own (now dead) body do not count
            own = 0
            for n in ast.walk(f):
                if cname is not None and isinstance(n, ast.Attribute) and n.attr == h:
                    own += 1
                if cname is None and isinstance(n, ast.Name) and n.id == h and isinstance(n.ctx, ast.Load):
                    own += 1
            if inlined[h] > 0 and remaining[h] - own == 0:
                ocname, obody = owner_body.get(id(f), (cname, body))
                if f in obody:
                    obody.remove(f)
                    dropped.setdefault(ocname, set()).add(h)
    # closures: a private helper defined inside a function and used by the functions nested next to it
    for outer in [n for n in ast.walk(tree) if isinstance(n, (ast.FunctionDef, ast.AsyncFunctionDef))]:
        local_helpers = {}
        for f in outer.body:
            if isinstance(f, ast.FunctionDef) and f.name.startswith("_") and not f.name.startswith("__") and not f.decorator_list and not f.args.args \
                    and not _has(f, (ast.Yield, ast.YieldFrom, ast.Await, ast.Nonlocal, ast.Global)):
                hb = [s_ for s_ in f.body if not (isinstance(s_, ast.Expr) and isinstance(s_.value, ast.Constant))]
                pure = not any(isinstance(x, (ast.Assign, ast.AugAssign, ast.For, ast.While, ast.Try, ast.With, ast.Raise, ast.Delete)) for s_ in hb for x in ast.walk(s_))
                pure = pure and not any(isinstance(s_, ast.Expr) for s_ in hb)
                expr = _decision_expr(hb) if pure else None
                if expr is not None:
                    local_helpers[f.name] = (f, expr)
        if not local_helpers:
            continue
        used = dict((h, 0) for h in local_helpers)

        class LocalInl(ast.NodeTransformer):
            def visit_Call(self, node):
                self.generic_visit(node)
                if isinstance(node.func, ast.Name) and node.func.id in local_helpers and not node.args and not node.keywords:
                    f, expr = local_helpers[node.func.id]
                    new_ = copy.deepcopy(expr)
                    for n_ in ast.walk(new_):
                        n_.lineno = getattr(node, "lineno", 1)
                        n_.col_offset = getattr(node, "col_offset", 0)
                        n_.end_lineno = getattr(node, "end_lineno", n_.lineno)
                        n_.end_col_offset = getattr(node, "end_col_offset", 0)
                    used[node.func.id] += 1
                    return new_
                return node
        for st in outer.body:
            if isinstance(st, ast.FunctionDef) and st.name in local_helpers:
                continue
            LocalInl().visit(st)
        for h, (f, expr) in local_helpers.items():
            others = sum(1 for n in ast.walk(outer) if isinstance(n, ast.Name) and n.id == h and isinstance(n.ctx, ast.Load))
            if used[h] > 0 and others == 0:
                outer.body.remove(f)
    # closures that only splice their *args into one expression: `def mk(*extra): return C(a, b, *extra, c)`, called as mk(x) / mk()
    base_names = set(b.split(".")[-2] + "." + b.split(".")[-1] for b in base if b.count(".") >= 2)
    for outer in [n for n in ast.walk(tree) if isinstance(n, (ast.FunctionDef, ast.AsyncFunctionDef))]:
        for f in list(outer.body):
            if not (isinstance(f, ast.FunctionDef) and not f.decorator_list and f.args.vararg and not f.args.args and not f.args.kwonlyargs
                    and not f.args.kwarg and not f.args.posonlyargs and "%s.%s" % (outer.name, f.name) not in base_names):
                continue
            hb = [s_ for s_ in f.body if not (isinstance(s_, ast.Expr) and isinstance(s_.value, ast.Constant))]
            if not (len(hb) == 1 and isinstance(hb[0], ast.Return) and hb[0].value is not None):
                continue
            va = f.args.vararg.arg
            expr = hb[0].value
            parents = {}
            for n in ast.walk(expr):
                for c in ast.iter_child_nodes(n):
                    parents[id(c)] = n
            uses = [n for n in ast.walk(expr) if isinstance(n, ast.Name) and n.id == va]
            if not uses or not all(isinstance(parents.get(id(u)), ast.Starred) and isinstance(parents.get(id(parents[id(u)])), ast.Call)
                                   and parents[id(u)] in parents[id(parents[id(u)])].args for u in uses):
                continue
            loads = [n for n in ast.walk(outer) if isinstance(n, ast.Name) and n.id == f.name and isinstance(n.ctx, ast.Load)]
            calls = [n for n in ast.walk(outer) if isinstance(n, ast.Call) and isinstance(n.func, ast.Name) and n.func.id == f.name
                     and not n.keywords and not any(isinstance(a, ast.Starred) for a in n.args)]
            if not calls or len(calls) != len(loads) or any(c in ast.walk(f) for c in calls):
                continue
            call_ids = set(id(c) for c in calls)

            class Splice(ast.NodeTransformer):
                def visit_Call(self, node):
                    self.generic_visit(node)
                    if id(node) in call_ids:
                        new_ = copy.deepcopy(expr)
                        for c2 in ast.walk(new_):
                            if isinstance(c2, ast.Call):
                                out_args = []
                                for a in c2.args:
                                    if isinstance(a, ast.Starred) and isinstance(a.value, ast.Name) and a.value.id == va:
                                        out_args += [copy.deepcopy(x) for x in node.args]
                                    else:
                                        out_args.append(a)
                                c2.args = out_args
                        for n_ in ast.walk(new_):
                            n_.lineno = getattr(node, "lineno", 1)
                            n_.col_offset = getattr(node, "col_offset", 0)
                            n_.end_lineno = getattr(node, "end_lineno", n_.lineno)
                            n_.end_col_offset = getattr(node, "end_col_offset", 0)
                        return new_
                    return node
            for st in outer.body:
                if st is f:
                    continue
                Splice().visit(st)
            outer.body.remove(f)
            dropped.setdefault(None, set()).add(f.name)
    return dropped


# ------------------------------------------------------------------------------------------
# normalisation: tuple-unpacking assignments and stable local aliases
# ------------------------------------------------------------------------------------------

def _chain_root(e):
    while isinstance(e, ast.Attribute):
        e = e.value
    return e.id if isinstance(e, ast.Name) else None


def _is_chain(e):
    if isinstance(e, ast.Name):
        return True
    if isinstance(e, ast.Attribute):
        return _is_chain(e.value)
    return False


def _split_tuple_assigns(fn):
    """`a, b = x, y`  ->  `a = x; b = y` when no later value mentions an earlier target."""
    def keys(t):
        try:
            return [ast.unparse(t)]
        except Exception:
            return ["?"]

    def rewrite(stmts):
        i = 0
        while i < len(stmts):
            s = stmts[i]
            if isinstance(s, ast.Assign) and len(s.targets) == 1 and isinstance(s.targets[0], (ast.Tuple, ast.List)) \
                    and isinstance(s.value, (ast.Tuple, ast.List)) and len(s.targets[0].elts) == len(s.value.elts) \
                    and not any(isinstance(e, ast.Starred) for e in s.targets[0].elts + s.value.elts):
                tg, vals = s.targets[0].elts, s.value.elts
                safe = True
                for a in range(len(tg)):
                    ka = keys(tg[a])[0]
                    root = ka.split(".")[0].split("[")[0]
                    for b in range(a + 1, len(vals)):
                        names = set(n.id for n in ast.walk(vals[b]) if isinstance(n, ast.Name))
                        if root in names and (isinstance(tg[a], ast.Name) or ka in ast.unparse(vals[b])):
                            safe = False
                if safe:
                    new = []
                    for t, v in zip(tg, vals):
                        a_ = ast.Assign(targets=[t], value=v)
                        ast.copy_location(a_, s)
                        a_.end_lineno = getattr(s, "end_lineno", s.lineno)
                        a_.end_col_offset = getattr(s, "end_col_offset", 0)
                        new.append(a_)
                    stmts[i:i + 1] = new
                    i += len(new)
                    continue
            for fld in ("body", "orelse", "finalbody"):
                sub = getattr(s, fld, None)
                if isinstance(sub, list) and not isinstance(s, (ast.FunctionDef, ast.AsyncFunctionDef, ast.ClassDef)):
                    rewrite(sub)
            for h in getattr(s, "handlers", []) or []:
                rewrite(h.body)
            i += 1
    rewrite(fn.body)


def _propagate_aliases(fn, never_stored=frozenset(), stable_globals=frozenset()):
    """A local bound exactly once to a name / attribute chain that is not rooted at self and whose
    root is itself stable is replaced by that chain at its uses (`send = gen.send`,
    `batches = _state.batches`).  Chains rooted at self are NOT propagated: `old = self.field` is a
    snapshot, and the rules about save/restore need to see it as one - except `x = self.<attr>` for an
    attribute that nothing in the module ever assigns (a class-level table such as the in-flight
    dict of the deduplicate decorator): there the local is just another name for the same object.
    Such an alias is replaced in the function's own body only, not inside nested functions and
    lambdas: what a closure captures (the table, but not self) matters for object lifetimes."""
    stores = {}
    for n in ast.walk(fn):
        if isinstance(n, ast.Name) and isinstance(n.ctx, (ast.Store, ast.Del)):
            stores[n.id] = stores.get(n.id, 0) + 1
        elif isinstance(n, ast.ExceptHandler) and n.name:
            stores[n.name] = stores.get(n.name, 0) + 2
        elif isinstance(n, (ast.FunctionDef, ast.AsyncFunctionDef, ast.ClassDef)) and n is not fn:
            stores[n.name] = stores.get(n.name, 0) + 2
        elif isinstance(n, (ast.Global, ast.Nonlocal)):
            for x in n.names:
                stores[x] = stores.get(x, 0) + 2
    params = set(a.arg for a in fn.args.posonlyargs + fn.args.args + fn.args.kwonlyargs)
    if fn.args.vararg:
        params.add(fn.args.vararg.arg)
    if fn.args.kwarg:
        params.add(fn.args.kwarg.arg)
    aliases = {}
    alias_stmts = []
    own_only = set()

    def scan(stmts):
        for s in stmts:
            if isinstance(s, ast.Assign) and len(s.targets) == 1 and isinstance(s.targets[0], ast.Name) and isinstance(s.value, ast.Name) \
                    and s.value.id in stable_globals and s.value.id not in stores and s.value.id not in params:
                # `options = _debug_options`: another name for a module-level object that is bound once, at import
                nm = s.targets[0].id
                if stores.get(nm, 0) == 1 and nm not in params and nm != s.value.id:
                    aliases[nm] = s.value
                    alias_stmts.append(s)
            if isinstance(s, ast.Assign) and len(s.targets) == 1 and isinstance(s.targets[0], ast.Name) and isinstance(s.value, ast.Attribute) \
                    and _is_chain(s.value):
                nm = s.targets[0].id
                root = _chain_root(s.value)
                self_table = root == "self" and isinstance(s.value.value, ast.Name) and s.value.attr in never_stored
                if stores.get(nm, 0) == 1 and nm not in params and (root not in ("self", "cls") or self_table) and root != nm \
                        and (stores.get(root, 0) <= 1):
                    # attributes stored through the same chain anywhere in the function make the alias a snapshot
                    attrs = set()
                    e = s.value
                    while isinstance(e, ast.Attribute):
                        attrs.add(e.attr)
                        e = e.value
                    stored_attrs = set(n.attr for n in ast.walk(fn) if isinstance(n, ast.Attribute) and isinstance(n.ctx, (ast.Store, ast.Del)))
                    if not (attrs & stored_attrs):
                        aliases[nm] = s.value
                        alias_stmts.append(s)
                        if self_table:
                            own_only.add(nm)
            for fld in ("body", "orelse", "finalbody"):
                sub = getattr(s, fld, None)
                if isinstance(sub, list) and not isinstance(s, (ast.FunctionDef, ast.AsyncFunctionDef, ast.ClassDef)):
                    scan(sub)
            for h in getattr(s, "handlers", []) or []:
                scan(h.body)
    scan(fn.body)
    # only aliases that are used exclusively as a call target or as the receiver of an attribute / subscript access are
    # replaced: an alias that is compared, returned, stored or passed on is a value in its own right
    parents = {}
    for n in ast.walk(fn):
        for c in ast.iter_child_nodes(n):
            parents[id(c)] = n
    for nm in list(aliases):
        ok = True
        for n in ast.walk(fn):
            if isinstance(n, ast.Name) and n.id == nm and isinstance(n.ctx, ast.Load):
                par = parents.get(id(n))
                if isinstance(par, ast.Call) and par.func is n:
                    continue
                if isinstance(par, ast.Attribute) and par.value is n:
                    continue
                if isinstance(par, ast.Subscript) and par.value is n:
                    continue
                ok = False
        if not ok:
            del aliases[nm]
    if not aliases:
        return

    class Rep(ast.NodeTransformer):
        depth = 0

        def _nested(self, node):
            if node is fn:
                return self.generic_visit(node)
            self.depth += 1
            try:
                return self.generic_visit(node)
            finally:
                self.depth -= 1
        visit_FunctionDef = visit_AsyncFunctionDef = visit_Lambda = _nested

        def visit_Name(self, node):
            if isinstance(node.ctx, ast.Load) and node.id in aliases and not (self.depth and node.id in own_only):
                return ast.copy_location(copy.deepcopy(aliases[node.id]), node)
            return node
    Rep().visit(fn)
    for n in ast.walk(fn):
        if not hasattr(n, "lineno") and isinstance(n, (ast.expr, ast.stmt)):
            n.lineno = fn.lineno
            n.col_offset = 0
            n.end_lineno = fn.lineno
            n.end_col_offset = 0


def _propagate_self_snapshots(fn):
    """`x = self.A` followed by uses of x that are all evaluated before anything else can run (no call, yield or await is executed
    between the read and the use; self.A is not stored in the function) is the same as reading self.A at each use: the local is
    replaced by the attribute read and the assignment dropped (`error = self._error; if error is not None: reraise(error)`).  A
    local that is still read after some call has run is a snapshot and is left alone."""
    nested = set()
    for n in ast.walk(fn):
        if isinstance(n, (ast.FunctionDef, ast.AsyncFunctionDef, ast.Lambda, ast.ClassDef, ast.GeneratorExp, ast.ListComp, ast.SetComp, ast.DictComp)) and n is not fn:
            for y in ast.walk(n):
                if isinstance(y, ast.Name):
                    nested.add(y.id)
    stored_attrs = set(n.attr for n in ast.walk(fn) if isinstance(n, ast.Attribute) and isinstance(n.ctx, (ast.Store, ast.Del)))
    store_count = {}
    for n in ast.walk(fn):
        if isinstance(n, ast.Name) and isinstance(n.ctx, (ast.Store, ast.Del)):
            store_count[n.id] = store_count.get(n.id, 0) + 1
        elif isinstance(n, ast.ExceptHandler) and n.name:
            store_count[n.name] = store_count.get(n.name, 0) + 2
    params = set(a.arg for a in fn.args.posonlyargs + fn.args.args + fn.args.kwonlyargs)

    def has_exec(e):
        # (hasattr / getattr / isinstance / type are questions about an object: they do not run the code that could replace self.A)
        return any((isinstance(y, ast.Call) and not (isinstance(y.func, ast.Name) and y.func.id in ("hasattr", "getattr", "isinstance", "type")))
                   or isinstance(y, (ast.Yield, ast.YieldFrom, ast.Await)) for y in ast.walk(e))

    def mentions(e, x):
        return sum(1 for y in ast.walk(e) if isinstance(y, ast.Name) and y.id == x and isinstance(y.ctx, ast.Load))

    def scan(stmts, x, dirty):
        """returns (ok, dirty_after, uses_seen)"""
        ok, d, seen, _term = scan4(stmts, x, dirty)
        return ok, d, seen

    def scan4(stmts, x, dirty):
        """returns (ok, dirty_after, uses_seen, terminated): a block that ends in continue / break / return / raise hands nothing on
        to the statements after the `if` it is an arm of"""
        seen = 0
        for st in stmts:
            m = mentions(st, x)
            if dirty:
                if m:
                    return False, True, seen, False
                if isinstance(st, (ast.Continue, ast.Break, ast.Return, ast.Raise)):
                    return True, True, seen, True
                continue
            if isinstance(st, (ast.Continue, ast.Break)):
                return True, dirty, seen, True
            if isinstance(st, ast.If):
                if has_exec(st.test):
                    if mentions(st.test, x):
                        return False, True, seen, False
                    d0 = True
                else:
                    seen += mentions(st.test, x)
                    d0 = False
                ok1, d1, s1, t1 = scan4(st.body, x, d0)
                ok2, d2, s2, t2 = scan4(st.orelse, x, d0)
                if not (ok1 and ok2):
                    return False, True, seen, False
                seen += s1 + s2
                if t1 and t2:
                    return True, True, seen, True
                dirty = (d1 and not t1) or (d2 and not t2)
                continue
            if isinstance(st, (ast.Expr, ast.Assign, ast.Return, ast.Raise, ast.AugAssign, ast.AnnAssign, ast.Assert, ast.Pass, ast.Delete)):
                term = isinstance(st, (ast.Return, ast.Raise))
                if not has_exec(st):
                    seen += m
                    if term:
                        return True, dirty, seen, True
                    continue
                # one outermost call whose arguments contain no further call: the arguments are evaluated before it runs
                v = st.value if isinstance(st, (ast.Expr, ast.Assign, ast.Return, ast.AnnAssign)) else (st.exc if isinstance(st, ast.Raise) else None)
                if m:
                    if not (isinstance(v, ast.Call) and not has_exec(v.func) and not any(has_exec(a) for a in list(v.args) + [k.value for k in v.keywords])
                            and (not isinstance(st, ast.Assign) or all(isinstance(t, ast.Name) for t in st.targets))):
                        return False, True, seen, False
                    seen += m
                dirty = True
                if term:
                    return True, True, seen, True
                continue
            # loops, try, with, ...: anything may run
            if m:
                return False, True, seen, False
            dirty = True
        return True, dirty, seen, False

    def rewrite(stmts):
        k = 0
        while k < len(stmts):
            st = stmts[k]
            for fld in ("body", "orelse", "finalbody"):
                sub = getattr(st, fld, None)
                if isinstance(sub, list) and not isinstance(st, (ast.FunctionDef, ast.AsyncFunctionDef, ast.ClassDef)):
                    rewrite(sub)
            for h in getattr(st, "handlers", []) or []:
                rewrite(h.body)
            chain_attrs = set()
            if isinstance(st, ast.Assign) and isinstance(st.value, ast.Attribute) and _is_chain(st.value):
                e_ = st.value
                while isinstance(e_, ast.Attribute):
                    chain_attrs.add(e_.attr)
                    e_ = e_.value
            if isinstance(st, ast.Assign) and len(st.targets) == 1 and isinstance(st.targets[0], ast.Name) and isinstance(st.value, ast.Attribute) \
                    and _is_chain(st.value) and _chain_root(st.value) == "self" and not (chain_attrs & stored_attrs):
                x = st.targets[0].id
                total = mentions(fn, x)
                if store_count.get(x, 0) == 1 and x not in params and x not in nested and total >= 1:
                    ok, d, seen = scan(stmts[k + 1:], x, False)
                    if ok and seen == total:
                        class Rep(ast.NodeTransformer):
                            def visit_Name(self, node):
                                if isinstance(node.ctx, ast.Load) and node.id == x:
                                    return ast.copy_location(copy.deepcopy(st.value), node)
                                return node
                        for later in stmts[k + 1:]:
                            Rep().visit(later)
                        del stmts[k]
                        continue
            k += 1
    rewrite(fn.body)
    for n in ast.walk(fn):
        if not hasattr(n, "lineno") and isinstance(n, (ast.expr, ast.stmt)):
            n.lineno = fn.lineno
            n.col_offset = 0


def _index_loop_to_for(fn):
    """   i = 0                      i = len(X) - 1
          while i < len(X):          while i >= 0:
              v = X[i]                   v = X[i]
              BODY                       BODY
              i += 1                     i -= 1
    become `for v in X: BODY` / `for v in reversed(X): BODY` when X is a plain local name that BODY does not assign, BODY neither
    reads nor writes i, and BODY has no `continue`/`break` of this loop (the rewrite is exact under these conditions: the index
    form visits the same elements in the same order)."""
    def walk_body(stmts):
        for st in stmts:
            yield st
            for fld in ("body", "orelse", "finalbody"):
                sub = getattr(st, fld, None)
                if isinstance(sub, list) and not isinstance(st, (ast.FunctionDef, ast.AsyncFunctionDef, ast.ClassDef)):
                    for x in walk_body(sub):
                        yield x
            for h in getattr(st, "handlers", []) or []:
                for x in walk_body(h.body):
                    yield x

    def rewrite(stmts):
        k = 0
        while k < len(stmts):
            st = stmts[k]
            for fld in ("body", "orelse", "finalbody"):
                sub = getattr(st, fld, None)
                if isinstance(sub, list) and not isinstance(st, (ast.ClassDef,)) and not (isinstance(st, (ast.FunctionDef, ast.AsyncFunctionDef)) and st is not fn):
                    rewrite(sub)
            for h in getattr(st, "handlers", []) or []:
                rewrite(h.body)
            if isinstance(st, ast.While) and not st.orelse and k >= 1 and len(st.body) >= 2:
                init = stmts[k - 1]
                first, last = st.body[0], st.body[-1]
                step_second = False
                if not (isinstance(last, ast.AugAssign) and isinstance(last.target, ast.Name)) and isinstance(st.body[1], ast.AugAssign):
                    # the step right after the element read (`v = X[i]; i -= 1; BODY`): equivalent when BODY does not mention i
                    last, step_second = st.body[1], True
                ok = (isinstance(init, ast.Assign) and len(init.targets) == 1 and isinstance(init.targets[0], ast.Name)
                      and isinstance(first, ast.Assign) and len(first.targets) == 1 and isinstance(first.targets[0], ast.Name)
                      and isinstance(first.value, ast.Subscript) and isinstance(first.value.value, ast.Name) and isinstance(first.value.slice, ast.Name)
                      and isinstance(last, ast.AugAssign) and isinstance(last.target, ast.Name) and isinstance(last.value, ast.Constant) and last.value.value == 1)
                if ok:
                    i, X, v = init.targets[0].id, first.value.value.id, first.targets[0].id
                    ok = first.value.slice.id == i and last.target.id == i and v not in (i, X)
                direction = None
                if ok:
                    t = ast.unparse(st.test).replace(" ", "")
                    iv = ast.unparse(init.value).replace(" ", "")
                    if iv == "0" and t in ("%s<len(%s)" % (i, X), "len(%s)>%s" % (X, i)) and isinstance(last.op, ast.Add):
                        direction = "forward"
                    elif iv == "len(%s)-1" % X and t in ("%s>=0" % i, "0<=%s" % i, "%s>-1" % i) and isinstance(last.op, ast.Sub):
                        direction = "reverse"
                    ok = direction is not None
                if ok:
                    mid = st.body[2:] if step_second else st.body[1:-1]
                    for x in walk_body(mid):
                        if isinstance(x, (ast.Continue, ast.Break)):
                            # only those of inner loops are harmless; be conservative
                            ok = False
                        for y in ast.walk(x) if not isinstance(x, (ast.FunctionDef, ast.AsyncFunctionDef, ast.ClassDef)) else []:
                            if isinstance(y, ast.Name) and y.id == i:
                                ok = False
                            if isinstance(y, ast.Name) and y.id == X and isinstance(y.ctx, (ast.Store, ast.Del)):
                                ok = False
                if ok:
                    # i must not be used after the loop
                    rest = stmts[k + 1:]
                    if any(isinstance(y, ast.Name) and y.id == i for r in rest for y in ast.walk(r)):
                        ok = False
                if ok:
                    it = ast.Name(id=X, ctx=ast.Load())
                    if direction == "reverse":
                        it = ast.Call(func=ast.Name(id="reversed", ctx=ast.Load()), args=[it], keywords=[])
                    new = ast.For(target=ast.Name(id=v, ctx=ast.Store()), iter=it, body=mid or [ast.Pass()], orelse=[], type_comment=None)
                    ast.copy_location(new, st)
                    ast.fix_missing_locations(new)
                    stmts[k - 1:k + 1] = [new]
                    k -= 1
            k += 1
    rewrite(fn.body)


def _inline_single_use_temps(fn):
    """   t = E                       A local that is assigned in a statement list and read exactly once, by the next statement of
          S(... t ...)    ->  S(... E ...)   the same list that mentions it, is substituted there and its assignment dropped, when that
    cannot move the evaluation of E past anything observable:
      * E without calls / yield / await (a plain read): the statements in between are themselves plain local assignments;
      * E with a call: S is the very next statement and consists of `target = t`, `return t` or `target op= t` (t is the first
        thing S evaluates).
    All definitions and all uses of t must be simple statements of this one list (no use in nested blocks, closures, handlers)."""
    nested_names = set()
    for n in ast.walk(fn):
        if isinstance(n, (ast.FunctionDef, ast.AsyncFunctionDef, ast.Lambda, ast.ClassDef, ast.GeneratorExp, ast.ListComp, ast.SetComp, ast.DictComp)) and n is not fn:
            for y in ast.walk(n):
                if isinstance(y, ast.Name):
                    nested_names.add(y.id)
        elif isinstance(n, (ast.Global, ast.Nonlocal)):
            nested_names.update(n.names)
    params = set(a.arg for a in fn.args.posonlyargs + fn.args.args + fn.args.kwonlyargs)
    if fn.args.vararg:
        params.add(fn.args.vararg.arg)
    if fn.args.kwarg:
        params.add(fn.args.kwarg.arg)
    SIMPLE = (ast.Assign, ast.AugAssign, ast.Expr, ast.Return, ast.AnnAssign, ast.Raise)

    def has_effect(e):
        return any(isinstance(y, (ast.Call, ast.Yield, ast.YieldFrom, ast.Await, ast.NamedExpr)) for y in ast.walk(e))

    def mentions(node, name):
        return [y for y in ast.walk(node) if isinstance(y, ast.Name) and y.id == name]

    def total_mentions(name):
        return sum(1 for y in ast.walk(fn) if isinstance(y, ast.Name) and y.id == name) + \
            sum(1 for y in ast.walk(fn) if isinstance(y, ast.ExceptHandler) and y.name == name)

    def process(stmts):
        changed = True
        while changed:
            changed = False
            for k, st in enumerate(stmts):
                if not (isinstance(st, ast.Assign) and len(st.targets) == 1 and isinstance(st.targets[0], ast.Name)):
                    continue
                x = st.targets[0].id
                if x in params or x in nested_names or x == "self" or mentions(st.value, x):
                    continue
                # only temporaries that merely name a read or a call result (`t = self.a.b`, `t = f(x)`); literals, comprehensions
                # and arithmetic stay where the author put them
                if not (isinstance(st.value, (ast.Name, ast.Call)) or (isinstance(st.value, ast.Attribute) and _is_chain(st.value))):
                    continue
                # every mention of x in the function is at the top level of this list, in simple statements
                here = sum(len(mentions(s2, x)) for s2 in stmts if isinstance(s2, SIMPLE))
                if here != total_mentions(x):
                    continue
                eff = has_effect(st.value)
                j = None
                for m in range(k + 1, len(stmts)):
                    s2 = stmts[m]
                    if mentions(s2, x):
                        j = m
                        break
                    if not (isinstance(s2, ast.Assign) and len(s2.targets) == 1 and isinstance(s2.targets[0], ast.Name) and not has_effect(s2.value)):
                        break
                    if eff:
                        break
                    # a later temp must not overwrite something E reads
                    if any(isinstance(y, ast.Name) and y.id == s2.targets[0].id for y in ast.walk(st.value)):
                        break
                if j is None:
                    continue
                S = stmts[j]
                if not isinstance(S, SIMPLE):
                    continue
                ms = mentions(S, x)
                if len(ms) != 1 or not isinstance(ms[0].ctx, ast.Load):
                    continue
                # no further read of this definition: the next mention after j (if any) must be a fresh definition `x = ...`
                later_ok = True
                for m in range(j + 1, len(stmts)):
                    s3 = stmts[m]
                    mm = mentions(s3, x)
                    if not mm:
                        continue
                    if isinstance(s3, ast.Assign) and len(s3.targets) == 1 and isinstance(s3.targets[0], ast.Name) and s3.targets[0].id == x and not mentions(s3.value, x):
                        break
                    later_ok = False
                    break
                if not later_ok:
                    continue
                if eff:
                    val = getattr(S, "value", None)
                    if isinstance(S, ast.Raise):
                        val = S.exc if S.cause is None else None

                    def leftmost(e):
                        # the sub-expression Python evaluates first
                        while True:
                            if isinstance(e, ast.Call) and e.args and not isinstance(e.args[0], ast.Starred) \
                                    and (isinstance(e.func, ast.Name) or (isinstance(e.func, ast.Attribute) and _is_chain(e.func) and _chain_root(e.func) not in ("self", "cls"))):
                                # (looking up the callee by a plain name / a module attribute runs nothing: the first argument comes first)
                                e = e.args[0]
                            elif isinstance(e, ast.Call):
                                e = e.func
                            elif isinstance(e, (ast.Attribute, ast.Subscript, ast.Await, ast.Starred)):
                                e = e.value
                            elif isinstance(e, ast.BinOp):
                                e = e.left
                            elif isinstance(e, ast.Compare):
                                e = e.left
                            elif isinstance(e, ast.BoolOp):
                                e = e.values[0]
                            elif isinstance(e, ast.UnaryOp):
                                e = e.operand
                            elif isinstance(e, (ast.Tuple, ast.List)) and any(not isinstance(x_, ast.Constant) for x_ in e.elts):
                                # (constants evaluate to nothing observable: the first other element comes first)
                                e = [x_ for x_ in e.elts if not isinstance(x_, ast.Constant)][0]
                            else:
                                return e
                    if not (j == k + 1 and isinstance(S, (ast.Assign, ast.Return, ast.AugAssign, ast.Expr, ast.Raise)) and val is not None and leftmost(val) is ms[0]):
                        continue
                    if isinstance(S, ast.Assign) and any(has_effect(t) for t in S.targets):
                        continue

                class Rep(ast.NodeTransformer):
                    def visit_Name(self, node):
                        if node is ms[0]:
                            return ast.copy_location(copy.deepcopy(st.value), node)
                        return node
                stmts[j] = Rep().visit(S)
                ast.fix_missing_locations(stmts[j])
                del stmts[k]
                changed = True
                break

    def walk(stmts):
        process(stmts)
        for s_ in stmts:
            if isinstance(s_, (ast.FunctionDef, ast.AsyncFunctionDef, ast.ClassDef)):
                continue
            for fld in ("body", "orelse", "finalbody"):
                sub = getattr(s_, fld, None)
                if isinstance(sub, list):
                    walk(sub)
            for h in getattr(s_, "handlers", []) or []:
                walk(h.body)
    walk(fn.body)


def _lower_bool_flags(fn):
    """`flag = A and B` (or / not ...), where flag is a local that is only ever truth-tested (if / while / not / and / or), becomes
    `if A and B: flag = True else: flag = False`: the CFG then has the operands as separate tests with their own edges, and the
    flag-sensitive path search follows the constant through the later test - the same paths as the statement form
    `if not A: return; if not B: return`."""
    parents = {}
    for n in ast.walk(fn):
        for c in ast.iter_child_nodes(n):
            parents[id(c)] = n

    def only_tested(name, own_value=None):
        inside = set(id(y) for y in ast.walk(own_value)) if own_value is not None else set()
        for n in ast.walk(fn):
            if isinstance(n, ast.Name) and n.id == name and isinstance(n.ctx, ast.Load):
                if id(n) in inside:
                    continue        # an operand of the very condition that is being lowered: it becomes a test
                cur = n
                par = parents.get(id(cur))
                while isinstance(par, (ast.UnaryOp, ast.BoolOp)) and (not isinstance(par, ast.UnaryOp) or isinstance(par.op, ast.Not)):
                    cur, par = par, parents.get(id(par))
                if not (isinstance(par, (ast.If, ast.While, ast.IfExp, ast.Assert)) and par.test is cur):
                    return False
        return True

    def rewrite(stmts):
        for k, st in enumerate(list(stmts)):
            for fld in ("body", "orelse", "finalbody"):
                sub = getattr(st, fld, None)
                if isinstance(sub, list) and not isinstance(st, (ast.FunctionDef, ast.AsyncFunctionDef, ast.ClassDef)):
                    rewrite(sub)
            for h in getattr(st, "handlers", []) or []:
                rewrite(h.body)
            if isinstance(st, ast.Assign) and len(st.targets) == 1 and isinstance(st.targets[0], ast.Name):
                v = st.value
                core = v.operand if isinstance(v, ast.UnaryOp) and isinstance(v.op, ast.Not) else v
                if isinstance(core, ast.BoolOp) and only_tested(st.targets[0].id, v):
                    def mk(c):
                        a = ast.Assign(targets=[ast.Name(id=st.targets[0].id, ctx=ast.Store())], value=ast.Constant(value=c))
                        return ast.copy_location(a, st)
                    new = ast.If(test=v, body=[mk(True)], orelse=[mk(False)])
                    ast.copy_location(new, st)
                    ast.fix_missing_locations(new)
                    stmts[stmts.index(st)] = new
    rewrite(fn.body)


def _sink_flag_test(fn):
    """   if C1: flag = True; v = A                      if C1: flag = True; v = A; BODY
          elif C2: flag = True; v = B          ->       elif C2: flag = True; v = B; BODY
          else: flag = False; v = None                   else: flag = False; v = None
          if flag: BODY
    when flag is a local that every arm sets to a boolean constant as a plain statement and that is read nowhere but in the test
    that follows immediately: the test's outcome is known in each arm, so its body is moved there (the found-flag idiom of a
    lookup helper that returns `(found, value)`)."""
    loads = {}
    for n in ast.walk(fn):
        if isinstance(n, ast.Name) and isinstance(n.ctx, ast.Load):
            loads[n.id] = loads.get(n.id, 0) + 1

    def leaves(st):
        """leaf statement lists of an if/elif/else chain, or None if there is no final else"""
        out = [st.body]
        if len(st.orelse) == 1 and isinstance(st.orelse[0], ast.If):
            sub = leaves(st.orelse[0])
            if sub is None:
                return None
            return out + sub
        if not st.orelse:
            return None
        return out + [st.orelse]

    def const_of(stmts, flag):
        val = None
        for x in stmts:
            if isinstance(x, ast.Assign) and len(x.targets) == 1 and isinstance(x.targets[0], ast.Name) and x.targets[0].id == flag:
                if isinstance(x.value, ast.Constant) and isinstance(x.value.value, bool):
                    val = x.value.value
                else:
                    return None
            elif any(isinstance(y, ast.Name) and y.id == flag and isinstance(y.ctx, ast.Store) for y in ast.walk(x)):
                return None
        return val

    def rewrite(stmts):
        k = 0
        while k < len(stmts):
            st = stmts[k]
            for fld in ("body", "orelse", "finalbody"):
                sub = getattr(st, fld, None)
                if isinstance(sub, list) and not isinstance(st, (ast.FunctionDef, ast.AsyncFunctionDef, ast.ClassDef)):
                    rewrite(sub)
            for h in getattr(st, "handlers", []) or []:
                rewrite(h.body)
            if isinstance(st, ast.If) and k + 1 < len(stmts) and isinstance(stmts[k + 1], ast.If) and not stmts[k + 1].orelse:
                t = stmts[k + 1].test
                pos = True
                if isinstance(t, ast.UnaryOp) and isinstance(t.op, ast.Not):
                    t, pos = t.operand, False
                if isinstance(t, ast.Name) and loads.get(t.id, 0) == 1:
                    lv = leaves(st)
                    if lv is not None and all(not (a and isinstance(a[-1], (ast.Return, ast.Raise, ast.Continue, ast.Break))) for a in lv):
                        consts = [const_of(a, t.id) for a in lv]
                        if all(c is not None for c in consts):
                            body = stmts[k + 1].body
                            for a, c in zip(lv, consts):
                                if c == pos:
                                    a.extend(copy.deepcopy(body))
                            del stmts[k + 1]
                            continue
                        # an arm may also end with `flag = E` for an expression E (`needs = task._active`): there the test becomes
                        # `if E:` in place of the assignment (the flag is read nowhere else)
                        def tail_expr(a):
                            if a and isinstance(a[-1], ast.Assign) and len(a[-1].targets) == 1 and isinstance(a[-1].targets[0], ast.Name) and a[-1].targets[0].id == t.id \
                                    and not any(isinstance(y, ast.Name) and y.id == t.id and isinstance(y.ctx, ast.Store) for x_ in a[:-1] for y in ast.walk(x_)):
                                return a[-1].value
                            return None
                        tails = [tail_expr(a) for a in lv]
                        small = len(stmts[k + 1].body) <= 2 and not any(isinstance(y, (ast.Yield, ast.YieldFrom, ast.Await, ast.For, ast.While, ast.Try, ast.With))
                                                                         for b_ in stmts[k + 1].body for y in ast.walk(b_))
                        if small and all((c is not None) or (e_ is not None) for c, e_ in zip(consts, tails)):
                            body = stmts[k + 1].body
                            for a, c, e_ in zip(lv, consts, tails):
                                if c is not None:
                                    if c == pos:
                                        a.extend(copy.deepcopy(body))
                                else:
                                    cond = copy.deepcopy(e_) if pos else ast.UnaryOp(op=ast.Not(), operand=copy.deepcopy(e_))
                                    a[-1] = ast.copy_location(ast.If(test=cond, body=copy.deepcopy(body), orelse=[]), a[-1])
                                    ast.fix_missing_locations(a[-1])
                            del stmts[k + 1]
                            continue
            k += 1
    rewrite(fn.body)


def _sink_tail_return(fn):
    """   if C: t = A                      if C: t = A; return t
          else: t = B; S        ->         else: t = B; S; return t
          return t
    (single-exit form back to one return per arm).  Applied when the statement before the tail `return t` is an if/elif/else
    chain with a final else, t is a plain local, and no arm already leaves the function or loop."""
    def leaves(st):
        out = [st.body]
        if len(st.orelse) == 1 and isinstance(st.orelse[0], ast.If):
            sub = leaves(st.orelse[0])
            return None if sub is None else out + sub
        if not st.orelse:
            return None
        return out + [st.orelse]

    def rewrite(stmts):
        for st in list(stmts):
            for fld in ("body", "orelse", "finalbody"):
                sub = getattr(st, fld, None)
                if isinstance(sub, list) and not isinstance(st, (ast.FunctionDef, ast.AsyncFunctionDef, ast.ClassDef)):
                    rewrite(sub)
            for h in getattr(st, "handlers", []) or []:
                rewrite(h.body)
        if len(stmts) >= 2 and isinstance(stmts[-1], ast.Return) and isinstance(stmts[-1].value, ast.Name) and isinstance(stmts[-2], ast.If):
            t = stmts[-1].value.id
            lv = leaves(stmts[-2])
            if lv is not None and all(a and not isinstance(a[-1], (ast.Return, ast.Raise, ast.Continue, ast.Break)) for a in lv) \
                    and all(any(isinstance(x, ast.Assign) and any(isinstance(y, ast.Name) and y.id == t for y in x.targets) for x in a) for a in lv):
                ret = stmts.pop()
                for a in lv:
                    a.append(copy.deepcopy(ret))
    if isinstance(fn, (ast.FunctionDef, ast.AsyncFunctionDef)):
        rewrite(fn.body)


def _return_temp(fn):
    """`t = E; return t` -> `return E` (adjacent statements; whatever else defines or reads t elsewhere is not affected: this
    return reads this definition, and nothing after a return reads it)."""
    def rewrite(stmts):
        k = 0
        while k < len(stmts):
            st = stmts[k]
            for fld in ("body", "orelse", "finalbody"):
                sub = getattr(st, fld, None)
                if isinstance(sub, list) and not isinstance(st, (ast.FunctionDef, ast.AsyncFunctionDef, ast.ClassDef)):
                    rewrite(sub)
            for h in getattr(st, "handlers", []) or []:
                rewrite(h.body)
            if isinstance(st, ast.Assign) and len(st.targets) == 1 and isinstance(st.targets[0], ast.Name) and k + 1 < len(stmts) \
                    and isinstance(stmts[k + 1], ast.Return) and isinstance(stmts[k + 1].value, ast.Name) and stmts[k + 1].value.id == st.targets[0].id \
                    and not any(isinstance(y, (ast.Yield, ast.YieldFrom, ast.Await)) for y in ast.walk(st.value)):
                new = ast.Return(value=st.value)
                ast.copy_location(new, st)
                stmts[k:k + 2] = [new]
                continue
            k += 1
    rewrite(fn.body)


def post_inline_normalize(tree):
    """Expression-position inlining leaves conditional expressions and tuple assignments behind: bring the functions back to the
    statement forms the rules are written against."""
    fns = [n for n in ast.walk(tree) if isinstance(n, (ast.FunctionDef, ast.AsyncFunctionDef))]
    for fn in fns:
        _drop_self_assign(fn)
    for fn in fns:
        _lower_ifexp(fn)
    for fn in fns:
        _split_tuple_assigns(fn)
    for fn in fns:
        _sink_flag_test(fn)
    for fn in fns:
        _inline_single_use_temps(fn)
    for fn in fns:
        _return_temp(fn)
    for fn in fns:
        # (an expanded helper brings its own explaining locals: `deps = task._dependencies`)
        _propagate_self_snapshots(fn)
        _propagate_aliases(fn)
        _for_over_temp(fn)
    for n in ast.walk(tree):
        if isinstance(n, (ast.expr, ast.stmt)) and not hasattr(n, "lineno"):
            n.lineno = 1
            n.col_offset = 0


def _lower_ifexp(fn):
    """`x = A if C else B`, `return A if C else B`, `f(A if C else B)` (sole argument, f a plain name / attribute chain) become
    if/else statements: the CFG then has the two arms as paths, like the statement form the rules were written against.  The
    evaluation order is the same (C, then the chosen arm, then the store / call)."""
    def simple_callee(e):
        return isinstance(e, ast.Name) or (isinstance(e, ast.Attribute) and _is_chain(e))

    def lower(st):
        val = getattr(st, "value", None)
        if isinstance(st, (ast.Assign, ast.AugAssign, ast.Return, ast.Expr, ast.AnnAssign)) and isinstance(val, ast.IfExp):
            def arm(v):
                c = copy.deepcopy(st)
                c.value = v
                return c
            if isinstance(st, ast.Assign) and any(any(isinstance(y, (ast.Call, ast.Yield, ast.Await)) for y in ast.walk(t)) for t in st.targets):
                return None
            new = ast.If(test=val.test, body=[arm(val.body)], orelse=[arm(val.orelse)])
            return ast.fix_missing_locations(ast.copy_location(new, st))
        if isinstance(st, (ast.Assign, ast.Return, ast.Expr)) and isinstance(val, (ast.Call, ast.Await, ast.Yield)):
            call = val.value if isinstance(val, (ast.Await, ast.Yield)) else val
            if isinstance(call, ast.Call) and simple_callee(call.func) and len(call.args) == 1 and not call.keywords and isinstance(call.args[0], ast.IfExp):
                ife = call.args[0]

                def arm2(v):
                    c = copy.deepcopy(st)
                    cc = c.value.value if isinstance(c.value, (ast.Await, ast.Yield)) else c.value
                    cc.args = [v]
                    return c
                new = ast.If(test=ife.test, body=[arm2(ife.body)], orelse=[arm2(ife.orelse)])
                return ast.fix_missing_locations(ast.copy_location(new, st))
        return None

    def walk(stmts):
        for k, st in enumerate(list(stmts)):
            if isinstance(st, (ast.FunctionDef, ast.AsyncFunctionDef, ast.ClassDef)):
                continue
            n = lower(st)
            if n is not None:
                stmts[k] = n
                st = n
            for fld in ("body", "orelse", "finalbody"):
                sub = getattr(st, fld, None)
                if isinstance(sub, list):
                    walk(sub)
            for h in getattr(st, "handlers", []) or []:
                walk(h.body)
    walk(fn.body)


def _simple_sig(fn):
    a = fn.args
    return not (a.vararg or a.kwarg or a.kwonlyargs or a.posonlyargs) and not fn.decorator_list


def _kwargs_to_positional(tree):
    """f(a, b, x=1, y=2) -> f(a, b, 1, 2) for calls of a module-level function of this module with a plain signature, when the
    keywords name its next parameters (so that the positional form binds exactly the same way)."""
    mod_fns = dict((n.name, n) for n in tree.body if isinstance(n, ast.FunctionDef) and _simple_sig(n))
    for c in ast.walk(tree):
        if not (isinstance(c, ast.Call) and isinstance(c.func, ast.Name) and c.func.id in mod_fns and c.keywords):
            continue
        if any(isinstance(a, ast.Starred) for a in c.args) or any(k.arg is None for k in c.keywords):
            continue
        params = [a.arg for a in mod_fns[c.func.id].args.args]
        kw = dict((k.arg, k.value) for k in c.keywords)
        rest = params[len(c.args):]
        if not set(kw) <= set(rest):
            continue
        take = rest[:len(kw)]
        if set(take) != set(kw):
            continue            # a gap (an unbound parameter before a keyword one): leave the call alone
        c.args = list(c.args) + [kw[p] for p in take]
        c.keywords = []


def call_fingerprint(fn):
    """{"arity": number of parameters, "calls": sorted names of what the function calls (attribute or function names)}"""
    calls = set()
    for y in ast.walk(fn):
        if isinstance(y, ast.Call):
            f = y.func
            if isinstance(f, ast.Attribute):
                calls.add(f.attr)
            elif isinstance(f, ast.Name):
                calls.add(f.id)
    a = fn.args
    return {"arity": len(a.posonlyargs) + len(a.args) + len(a.kwonlyargs) + (1 if a.vararg else 0) + (1 if a.kwarg else 0), "calls": sorted(calls)}


_fingerprints = None


def unrename_module(tree, modname):
    """A private method of the baseline list that has vanished from its class, while the class has a new private method with the same
    arity that calls (almost) the same things, was renamed: the new name is mapped back (definition, `self.<name>` references in the
    class), so that the rules - which know some methods by the role their baseline name stands for - and the inliner (which would
    expand a "new" helper at its call sites) see the method they know.  Returns {class name: {new name: baseline name}}.  The
    pairing must be unambiguous both ways; anything else is left alone."""
    global _fingerprints
    if _fingerprints is None:
        import json
        p = os.path.join(HERE, "baseline_fingerprints.json")
        _fingerprints = json.load(open(p)) if os.path.exists(p) else {}
    out = {}
    for cls in [n for n in tree.body if isinstance(n, ast.ClassDef)]:
        present = dict((n.name, n) for n in cls.body if isinstance(n, ast.FunctionDef))
        prefix = "%s.%s." % (modname, cls.name)
        vanished = [q_[len(prefix):] for q_ in _fingerprints if q_.startswith(prefix) and q_[len(prefix):] not in present]
        fresh = [n for n in present if (prefix + n) not in baseline() and n.startswith("_") and not n.startswith("__")]
        if not vanished or not fresh:
            continue

        def score(new, old):
            fp_new, fp_old = call_fingerprint(present[new]), _fingerprints[prefix + old]
            if fp_new["arity"] != fp_old["arity"]:
                return 0.0
            # calls of other renamed methods do not count against the match
            a = set(fp_new["calls"]) - set(fresh)
            b = set(fp_old["calls"]) - set(vanished)
            if not a and not b:
                return 1.0
            return len(a & b) / float(len(a | b))
        pairs = {}
        for new in fresh:
            cands = [(score(new, old), old) for old in vanished]
            cands = sorted([c for c in cands if c[0] >= 0.6], reverse=True)
            if cands and (len(cands) == 1 or cands[0][0] > cands[1][0]):
                pairs[new] = cands[0][1]
        # unambiguous both ways
        taken = {}
        for new, old in pairs.items():
            taken.setdefault(old, []).append(new)
        mapping = dict((news[0], old) for old, news in taken.items() if len(news) == 1)
        if not mapping:
            continue
        for n in ast.walk(cls):
            if isinstance(n, ast.FunctionDef) and n.name in mapping and n in cls.body:
                n.name = mapping[n.name]
            elif isinstance(n, ast.Attribute) and isinstance(n.value, ast.Name) and n.value.id == "self" and n.attr in mapping:
                n.attr = mapping[n.attr]
        out[cls.name] = mapping
    return out


def _partial_to_def(tree):
    """T = functools.partial(F, *bound, **named), F a module-level function of this module with a plain signature, becomes
    `def T(<unbound leading parameters>): return F(<all parameters>)`: the key-function / callback rules then see an ordinary function.
    (The bound expressions are plain names or attribute chains; they are read when T is called instead of when it is made.)"""
    mod_fns = dict((n.name, n) for n in tree.body if isinstance(n, ast.FunctionDef) and _simple_sig(n))

    def convert(st):
        if not (isinstance(st, ast.Assign) and len(st.targets) == 1 and isinstance(st.targets[0], ast.Name) and isinstance(st.value, ast.Call)):
            return None
        c = st.value
        nm = ast.unparse(c.func)
        if nm not in ("functools.partial", "partial") or not c.args or not isinstance(c.args[0], ast.Name) or c.args[0].id not in mod_fns:
            return None
        if any(isinstance(a, ast.Starred) for a in c.args) or any(k.arg is None for k in c.keywords):
            return None
        F = mod_fns[c.args[0].id]
        params = [a.arg for a in F.args.args]
        bound = {}
        for p, v in zip(params, c.args[1:]):
            bound[p] = v
        for k in c.keywords:
            if k.arg not in params or k.arg in bound:
                return None
            bound[k.arg] = k.value
        if not all(_is_chain(v) or isinstance(v, ast.Constant) for v in bound.values()):
            return None
        unbound = [p for p in params if p not in bound]
        # the unbound parameters must be the leading ones once the bound ones are removed in order
        if F.args.defaults and any(p in unbound for p in params[len(params) - len(F.args.defaults):]):
            return None
        call = ast.Call(func=ast.Name(id=F.name, ctx=ast.Load()),
                        args=[copy.deepcopy(bound[p]) if p in bound else ast.Name(id=p, ctx=ast.Load()) for p in params], keywords=[])
        new = ast.FunctionDef(name=st.targets[0].id, args=ast.arguments(posonlyargs=[], args=[ast.arg(arg=p) for p in unbound], vararg=None, kwonlyargs=[],
                                                                       kw_defaults=[], kwarg=None, defaults=[]),
                              body=[ast.Return(value=call)], decorator_list=[], returns=None, type_comment=None, type_params=[])
        ast.copy_location(new, st)
        ast.fix_missing_locations(new)
        return new

    def walk(stmts):
        for k, st in enumerate(list(stmts)):
            n = convert(st)
            if n is not None:
                stmts[k] = n
                continue
            for fld in ("body", "orelse", "finalbody"):
                sub = getattr(st, fld, None)
                if isinstance(sub, list) and not isinstance(st, ast.ClassDef):
                    walk(sub)
            for h in getattr(st, "handlers", []) or []:
                walk(h.body)
    for fn in [n for n in tree.body if isinstance(n, (ast.FunctionDef, ast.AsyncFunctionDef))]:
        walk(fn.body)


def _partial_method_to_def(tree):
    """Inside a method, `functools.partial(self.M, a, b)` used as an argument - M a method of the same class with a plain signature,
    a and b plain local names that are not rebound afterwards - becomes a nested `def M__bound(<remaining parameters>): <M's body with
    its leading parameters replaced by a, b>` placed before the statement: the closure the author could have written in place (the
    callback rules then see an ordinary nested function; `self` is the enclosing method's)."""
    for cls in [n for n in tree.body if isinstance(n, ast.ClassDef)]:
        methods = dict((n.name, n) for n in cls.body if isinstance(n, ast.FunctionDef) and _simple_sig(n) and not n.decorator_list)
        for fn in [n for n in cls.body if isinstance(n, ast.FunctionDef)]:
            if not fn.args.args or fn.args.args[0].arg != "self":
                continue
            rebinds = {}
            for y in ast.walk(fn):
                if isinstance(y, ast.Name) and isinstance(y.ctx, (ast.Store, ast.Del)):
                    rebinds[y.id] = rebinds.get(y.id, 0) + 1

            def visit(stmts):
                k = 0
                while k < len(stmts):
                    st = stmts[k]
                    for fld in ("body", "orelse", "finalbody"):
                        sub = getattr(st, fld, None)
                        if isinstance(sub, list) and not isinstance(st, (ast.FunctionDef, ast.AsyncFunctionDef, ast.ClassDef)):
                            visit(sub)
                    for h in getattr(st, "handlers", []) or []:
                        visit(h.body)
                    if isinstance(st, (ast.Expr, ast.Assign, ast.Return)):
                        for c in [y for y in ast.walk(st) if isinstance(y, ast.Call)]:
                            if ast.unparse(c.func) not in ("functools.partial", "partial") or not c.args or c.keywords:
                                continue
                            f0 = c.args[0]
                            if not (isinstance(f0, ast.Attribute) and isinstance(f0.value, ast.Name) and f0.value.id == "self" and f0.attr in methods and methods[f0.attr] is not fn):
                                continue
                            M = methods[f0.attr]
                            params = [a.arg for a in M.args.args][1:]
                            bound = c.args[1:]
                            if len(bound) > len(params) or M.args.defaults or not all(isinstance(b, ast.Name) and rebinds.get(b.id, 0) <= 1 for b in bound):
                                continue
                            stored = set(y.id for y in ast.walk(M) if isinstance(y, ast.Name) and isinstance(y.ctx, (ast.Store, ast.Del)))
                            if stored & set(params) or any(isinstance(y, (ast.Yield, ast.YieldFrom, ast.Await)) for y in ast.walk(M)):
                                continue
                            name = "%s__bound" % M.name.lstrip("_")
                            if any(isinstance(y, ast.Name) and y.id == name for y in ast.walk(fn)):
                                continue
                            mapping = dict(zip(params, bound))

                            class Sub(ast.NodeTransformer):
                                def visit_Name(self, node):
                                    if isinstance(node.ctx, ast.Load) and node.id in mapping:
                                        return ast.copy_location(copy.deepcopy(mapping[node.id]), node)
                                    return node
                            body = [Sub().visit(copy.deepcopy(b)) for b in M.body if not (isinstance(b, ast.Expr) and isinstance(b.value, ast.Constant))] or [ast.Pass()]
                            new = ast.FunctionDef(name=name, args=ast.arguments(posonlyargs=[], args=[ast.arg(arg=p) for p in params[len(bound):]], vararg=None, kwonlyargs=[],
                                                                                kw_defaults=[], kwarg=None, defaults=[]),
                                                  body=body, decorator_list=[], returns=None, type_comment=None, type_params=[])
                            ast.copy_location(new, st)
                            ast.fix_missing_locations(new)
                            ref = ast.copy_location(ast.Name(id=name, ctx=ast.Load()), c)
                            for par in ast.walk(st):
                                for fld, val in ast.iter_fields(par):
                                    if val is c:
                                        setattr(par, fld, ref)
                                    elif isinstance(val, list) and any(x is c for x in val):
                                        val[:] = [ref if x is c else x for x in val]
                            stmts[k:k] = [new]
                            k += 1
                            break
                    k += 1
            visit(fn.body)


def _closure_factory_to_def(tree):
    """T = F(a, b, c), F a module-level function of this module whose whole body is `def inner(...): ...; return inner`, becomes
    `def T(...): <inner's body with F's parameters replaced by a, b, c>` - the nested def the author could have written in place
    (the arguments are plain names, attribute chains or constants; inner only reads F's parameters)."""
    facts = {}
    for n in tree.body:
        if not (isinstance(n, ast.FunctionDef) and _simple_sig(n) and not n.decorator_list):
            continue
        body = [b for b in n.body if not (isinstance(b, ast.Expr) and isinstance(b.value, ast.Constant))]
        if len(body) == 2 and isinstance(body[0], ast.FunctionDef) and not body[0].decorator_list and isinstance(body[1], ast.Return) \
                and isinstance(body[1].value, ast.Name) and body[1].value.id == body[0].name:
            inner = body[0]
            ps = [a.arg for a in n.args.args]
            stored = set(y.id for y in ast.walk(inner) if isinstance(y, ast.Name) and isinstance(y.ctx, (ast.Store, ast.Del)))
            inner_params = set(a.arg for a in inner.args.posonlyargs + inner.args.args + inner.args.kwonlyargs)
            if not (set(ps) & (stored | inner_params)) and not n.args.defaults:
                facts[n.name] = (n, inner, ps)
    if not facts:
        return

    def convert(st):
        if not (isinstance(st, ast.Assign) and len(st.targets) == 1 and isinstance(st.targets[0], ast.Name) and isinstance(st.value, ast.Call)
                and isinstance(st.value.func, ast.Name) and st.value.func.id in facts):
            return None
        c = st.value
        F, inner, ps = facts[c.func.id]
        if c.keywords or len(c.args) != len(ps) or not all(_is_chain(a) or isinstance(a, ast.Constant) for a in c.args):
            return None
        sub = dict(zip(ps, c.args))

        class Rep(ast.NodeTransformer):
            def visit_Name(self, node):
                if isinstance(node.ctx, ast.Load) and node.id in sub:
                    return ast.copy_location(copy.deepcopy(sub[node.id]), node)
                return node
        new = copy.deepcopy(inner)
        new.name = st.targets[0].id
        new.body = [Rep().visit(b) for b in new.body]
        ast.copy_location(new, st)
        for y in ast.walk(new):
            if isinstance(y, (ast.expr, ast.stmt)):
                y.lineno = st.lineno
                y.col_offset = getattr(st, "col_offset", 0)
                y.end_lineno = getattr(st, "end_lineno", st.lineno)
                y.end_col_offset = getattr(st, "end_col_offset", 0)
        return new

    def walk(stmts):
        for k, st in enumerate(list(stmts)):
            n = convert(st)
            if n is not None:
                stmts[k] = n
                continue
            for fld in ("body", "orelse", "finalbody"):
                sub_ = getattr(st, fld, None)
                if isinstance(sub_, list) and not isinstance(st, ast.ClassDef):
                    walk(sub_)
            for h in getattr(st, "handlers", []) or []:
                walk(h.body)
    for fn in [n for n in tree.body if isinstance(n, (ast.FunctionDef, ast.AsyncFunctionDef))]:
        walk(fn.body)


def _unpack_to_subscripts(fn):
    """`_, x = E` / `x, _ = E` (a two-element unpacking of one call's result that throws one element away) is written as
    `t = E; x = t[1]` / `x = t[0]`: the rules that follow "the element of the winning pair" see the subscript they look for.  (For
    the tuples such calls produce, unpacking and indexing select the same element.)"""
    names = set(y.id for y in ast.walk(fn) if isinstance(y, ast.Name))

    def process(stmts):
        k = 0
        while k < len(stmts):
            st = stmts[k]
            for fld in ("body", "orelse", "finalbody"):
                sub = getattr(st, fld, None)
                if isinstance(sub, list) and sub and isinstance(sub[0], ast.stmt) and not isinstance(st, (ast.FunctionDef, ast.AsyncFunctionDef, ast.ClassDef)):
                    process(sub)
            for h in getattr(st, "handlers", []) or []:
                process(h.body)
            if isinstance(st, ast.Assign) and len(st.targets) == 1 and isinstance(st.targets[0], ast.Tuple) and len(st.targets[0].elts) == 2 \
                    and all(isinstance(e, ast.Name) for e in st.targets[0].elts) and isinstance(st.value, ast.Call) \
                    and sum(1 for e in st.targets[0].elts if e.id == "_") == 1:
                keep = [(i, e) for i, e in enumerate(st.targets[0].elts) if e.id != "_"][0]
                tmp = "%s__pair" % keep[1].id
                if tmp not in names:
                    a1 = ast.copy_location(ast.Assign(targets=[ast.Name(id=tmp, ctx=ast.Store())], value=st.value), st)
                    a2 = ast.copy_location(ast.Assign(targets=[ast.Name(id=keep[1].id, ctx=ast.Store())],
                                                      value=ast.Subscript(value=ast.Name(id=tmp, ctx=ast.Load()), slice=ast.Constant(value=keep[0]), ctx=ast.Load())), st)
                    ast.fix_missing_locations(a1)
                    ast.fix_missing_locations(a2)
                    stmts[k:k + 1] = [a1, a2]
                    k += 2
                    continue
            k += 1
    process(fn.body)


def _drop_self_assign(fn):
    """`x = x` for a local x (what the expansion of `x = helper(x, ...)` leaves for the helper's `return first_argument` arm) does nothing."""
    def process(stmts):
        for i, st in enumerate(list(stmts)):
            for fld in ("body", "orelse", "finalbody"):
                sub = getattr(st, fld, None)
                if isinstance(sub, list) and sub and isinstance(sub[0], ast.stmt) and not isinstance(st, (ast.FunctionDef, ast.AsyncFunctionDef, ast.ClassDef)):
                    process(sub)
            for h in getattr(st, "handlers", []) or []:
                process(h.body)
        keep = [st for st in stmts if not (isinstance(st, ast.Assign) and len(st.targets) == 1 and isinstance(st.targets[0], ast.Name)
                                           and isinstance(st.value, ast.Name) and st.value.id == st.targets[0].id)]
        if len(keep) != len(stmts):
            stmts[:] = keep or [ast.copy_location(ast.Pass(), stmts[0])]
    process(fn.body)


def _reverse_then_for(fn):
    """`X.reverse()` directly before `for v in X:` (or `for v in reversed(X):`), where X is a local list bound once in this function
    to a fresh copy (a slice or list(...)) and mentioned nowhere after the reverse() but in the loop header, is `for v in reversed(X)`
    (`for v in X`): the in-place reversal of a private copy nobody else sees."""
    stores = {}
    for n in ast.walk(fn):
        if isinstance(n, ast.Name) and isinstance(n.ctx, (ast.Store, ast.Del)):
            stores[n.id] = stores.get(n.id, 0) + 1
    fresh = set()
    for n in ast.walk(fn):
        if isinstance(n, ast.Assign) and len(n.targets) == 1 and isinstance(n.targets[0], ast.Name) and stores.get(n.targets[0].id) == 1:
            v = n.value
            if (isinstance(v, ast.Subscript) and isinstance(v.slice, ast.Slice)) or (isinstance(v, ast.Call) and isinstance(v.func, ast.Name) and v.func.id in ("list", "sorted")):
                fresh.add(n.targets[0].id)

    def visit(stmts):
        k = 0
        while k + 1 < len(stmts):
            a = stmts[k]
            j = k + 1
            if isinstance(a, ast.Expr) and isinstance(a.value, ast.Call) and isinstance(a.value.func, ast.Attribute) and a.value.func.attr == "reverse" \
                    and isinstance(a.value.func.value, ast.Name):
                # plain assignments that run nothing and do not mention the list may stand in between
                while j < len(stmts) and isinstance(stmts[j], ast.Assign) and not any(isinstance(y, (ast.Call, ast.Yield, ast.YieldFrom, ast.Await)) or
                                                                                       (isinstance(y, ast.Name) and y.id == a.value.func.value.id) for y in ast.walk(stmts[j])):
                    j += 1
            b = stmts[j] if j < len(stmts) else None
            if isinstance(a, ast.Expr) and isinstance(a.value, ast.Call) and isinstance(a.value.func, ast.Attribute) and a.value.func.attr == "reverse" \
                    and not a.value.args and not a.value.keywords and isinstance(a.value.func.value, ast.Name) and a.value.func.value.id in fresh and isinstance(b, ast.For):
                x = a.value.func.value.id
                it = b.iter
                plain = isinstance(it, ast.Name) and it.id == x
                wrapped = isinstance(it, ast.Call) and isinstance(it.func, ast.Name) and it.func.id == "reversed" and len(it.args) == 1 \
                    and isinstance(it.args[0], ast.Name) and it.args[0].id == x
                later = sum(1 for st in stmts[j + 1:] for y in ast.walk(st) if isinstance(y, ast.Name) and y.id == x)
                inside = sum(1 for st in b.body + b.orelse for y in ast.walk(st) if isinstance(y, ast.Name) and y.id == x)
                if (plain or wrapped) and not later and not inside:
                    if plain:
                        b.iter = ast.copy_location(ast.Call(func=ast.Name(id="reversed", ctx=ast.Load()), args=[ast.Name(id=x, ctx=ast.Load())], keywords=[]), it)
                    else:
                        b.iter = ast.copy_location(ast.Name(id=x, ctx=ast.Load()), it)
                    ast.fix_missing_locations(b)
                    del stmts[k]
                    continue
            k += 1
        for st in stmts:
            for fld in ("body", "orelse", "finalbody"):
                sub = getattr(st, fld, None)
                if isinstance(sub, list) and not isinstance(st, (ast.FunctionDef, ast.AsyncFunctionDef, ast.ClassDef)):
                    visit(sub)
            for h in getattr(st, "handlers", []) or []:
                visit(h.body)
    visit(fn.body)


def _fold_bool_chain(fn):
    """   x = A                      x = A
          if x:                      if not x:
              x = B                      x = B
    are `x = A and B` / `x = A or B` (exactly: the short-circuit value of the chain), applied bottom-up and repeatedly, so that a
    condition spelled out one operand at a time (`ok = hasattr(e, a); if ok: ok = isinstance(e.a, T); ...`) is the condition again."""
    def fold(stmts):
        for st in stmts:
            for fld in ("body", "orelse", "finalbody"):
                sub = getattr(st, fld, None)
                if isinstance(sub, list) and not isinstance(st, (ast.FunctionDef, ast.AsyncFunctionDef, ast.ClassDef)):
                    fold(sub)
            for h in getattr(st, "handlers", []) or []:
                fold(h.body)
        k = 0
        while k + 1 < len(stmts):
            a, b = stmts[k], stmts[k + 1]
            if isinstance(a, ast.Assign) and len(a.targets) == 1 and isinstance(a.targets[0], ast.Name) and isinstance(b, ast.If) and not b.orelse and len(b.body) == 1:
                x = a.targets[0].id
                t, neg = b.test, False
                if isinstance(t, ast.UnaryOp) and isinstance(t.op, ast.Not):
                    t, neg = t.operand, True
                c = b.body[0]
                if isinstance(t, ast.Name) and t.id == x and isinstance(c, ast.Assign) and len(c.targets) == 1 and isinstance(c.targets[0], ast.Name) and c.targets[0].id == x \
                        and not any(isinstance(y, ast.Name) and y.id == x for y in ast.walk(c.value)) and not any(isinstance(y, (ast.Yield, ast.YieldFrom, ast.Await)) for y in ast.walk(c.value)):
                    op = ast.Or if neg else ast.And
                    left = a.value
                    vals = (list(left.values) if isinstance(left, ast.BoolOp) and isinstance(left.op, op) else [left]) + \
                           (list(c.value.values) if isinstance(c.value, ast.BoolOp) and isinstance(c.value.op, op) else [c.value])
                    a.value = ast.copy_location(ast.BoolOp(op=op(), values=vals), a.value)
                    ast.fix_missing_locations(a)
                    del stmts[k + 1]
                    continue
            k += 1
    fold(fn.body)


def _merge_isinstance_or(fn):
    """`isinstance(x, A) or isinstance(x, B)` is `isinstance(x, (A, B))` for a plain name x (same tests, same order)."""
    class T(ast.NodeTransformer):
        def visit_BoolOp(self, node):
            self.generic_visit(node)
            if not isinstance(node.op, ast.Or):
                return node
            vals = node.values

            def isi(e):
                return isinstance(e, ast.Call) and isinstance(e.func, ast.Name) and e.func.id == "isinstance" and len(e.args) == 2 and not e.keywords and isinstance(e.args[0], ast.Name)
            if len(vals) >= 2 and all(isi(v) for v in vals) and len(set(v.args[0].id for v in vals)) == 1:
                classes = []
                for v in vals:
                    classes.extend(v.args[1].elts if isinstance(v.args[1], ast.Tuple) else [v.args[1]])
                new = ast.Call(func=ast.Name(id="isinstance", ctx=ast.Load()), args=[vals[0].args[0], ast.Tuple(elts=classes, ctx=ast.Load())], keywords=[])
                return ast.fix_missing_locations(ast.copy_location(new, node))
            return node
    T().visit(fn)


def _unroll_const_for(fn):
    """`for v in ("a", "b"): BODY` over a short tuple/list display of constants, where BODY has no break/continue/else, does not
    assign v and v is not read after the loop, is BODY with v = "a" followed by BODY with v = "b" (the constants substituted).
    `getattr(x, "name")` with a constant identifier that is not a keyword is `x.name`."""
    import keyword

    def simple(body):
        for st in body:
            for y in ast.walk(st):
                if isinstance(y, (ast.Break, ast.Continue, ast.FunctionDef, ast.AsyncFunctionDef, ast.Lambda, ast.ClassDef, ast.Yield, ast.YieldFrom, ast.Await)):
                    return False
        return True

    def visit(stmts):
        k = 0
        while k < len(stmts):
            st = stmts[k]
            for fld in ("body", "orelse", "finalbody"):
                sub = getattr(st, fld, None)
                if isinstance(sub, list) and not isinstance(st, (ast.FunctionDef, ast.AsyncFunctionDef, ast.ClassDef)):
                    visit(sub)
            for h in getattr(st, "handlers", []) or []:
                visit(h.body)
            if isinstance(st, ast.For) and isinstance(st.target, ast.Name) and isinstance(st.iter, (ast.Tuple, ast.List)) and 1 <= len(st.iter.elts) <= 4 \
                    and all(isinstance(e, ast.Constant) for e in st.iter.elts) and not st.orelse and simple(st.body):
                v = st.target.id
                stored = any(isinstance(y, ast.Name) and y.id == v and isinstance(y.ctx, (ast.Store, ast.Del)) for b in st.body for y in ast.walk(b))
                later = any(isinstance(y, ast.Name) and y.id == v for later_st in stmts[k + 1:] for y in ast.walk(later_st))
                if not stored and not later:
                    out = []
                    for c in st.iter.elts:
                        class Sub(ast.NodeTransformer):
                            def visit_Name(self, node):
                                if node.id == v and isinstance(node.ctx, ast.Load):
                                    return ast.copy_location(ast.Constant(value=c.value), node)
                                return node
                        for b in st.body:
                            out.append(ast.fix_missing_locations(Sub().visit(copy.deepcopy(b))))
                    stmts[k:k + 1] = out
                    k += len(out)
                    continue
            k += 1
    visit(fn.body)

    class G(ast.NodeTransformer):
        def visit_Call(self, node):
            self.generic_visit(node)
            if isinstance(node.func, ast.Name) and node.func.id == "getattr" and len(node.args) == 2 and not node.keywords and isinstance(node.args[1], ast.Constant) \
                    and isinstance(node.args[1].value, str) and node.args[1].value.isidentifier() and not keyword.iskeyword(node.args[1].value):
                return ast.copy_location(ast.Attribute(value=node.args[0], attr=node.args[1].value, ctx=ast.Load()), node)
            return node
    G().visit(fn)
    ast.fix_missing_locations(fn)


def _merge_shared_iter_loops(fn):
    """   it = iter(X)
          for v in it: B1          (B1 leaves the loop only by `break` in tail position; no else clause)
          for v in it: B2          (no break, no else clause)
    with `it` used nowhere else, is one loop over X in two phases:
          it__second = False
          for v in X:
              if not it__second: B1 with `break` replaced by `it__second = True`
              else: B2
    (the element B1 breaks on is consumed by the first phase in both forms; when B1 never breaks the second loop has nothing left)."""
    def tail_breaks_only(body):
        """every Break in body (not inside a nested loop) is in tail position of body"""
        def ok(stmts, tail):
            for i, st in enumerate(stmts):
                last = tail and i == len(stmts) - 1
                if isinstance(st, ast.Break):
                    if not last:
                        return False
                elif isinstance(st, ast.If):
                    if not ok(st.body, last) or not ok(st.orelse, last):
                        return False
                elif isinstance(st, ast.Try):
                    if st.finalbody and any(isinstance(y, ast.Break) for b in st.body + st.orelse + [x for h in st.handlers for x in h.body] for y in ast.walk(b)):
                        return False
                    # the try body is in tail position only if nothing follows it in the try statement (no else)
                    if not ok(st.body, last and not st.orelse) or not ok(st.orelse, last):
                        return False
                    for h in st.handlers:
                        if not ok(h.body, last):
                            return False
                elif isinstance(st, (ast.For, ast.While, ast.AsyncFor)):
                    continue
                elif isinstance(st, (ast.With, ast.AsyncWith)):
                    if not ok(st.body, last):
                        return False
                elif any(isinstance(y, ast.Break) for y in ast.walk(st)):
                    return False
            return True
        return ok(body, True)

    def has_own_break(body):
        def walk(stmts):
            for st in stmts:
                if isinstance(st, ast.Break):
                    return True
                if isinstance(st, (ast.For, ast.While, ast.AsyncFor, ast.FunctionDef, ast.AsyncFunctionDef, ast.ClassDef)):
                    continue
                for fld in ("body", "orelse", "finalbody"):
                    if walk(getattr(st, fld, []) or []):
                        return True
                for h in getattr(st, "handlers", []) or []:
                    if walk(h.body):
                        return True
            return False
        return walk(body)

    def visit(stmts):
        for st in stmts:
            for fld in ("body", "orelse", "finalbody"):
                sub = getattr(st, fld, None)
                if isinstance(sub, list) and not isinstance(st, (ast.FunctionDef, ast.AsyncFunctionDef, ast.ClassDef)):
                    visit(sub)
            for h in getattr(st, "handlers", []) or []:
                visit(h.body)
        k = 0
        while k < len(stmts):
            a = stmts[k]
            if isinstance(a, ast.Assign) and len(a.targets) == 1 and isinstance(a.targets[0], ast.Name) and isinstance(a.value, ast.Call) \
                    and isinstance(a.value.func, ast.Name) and a.value.func.id == "iter" and len(a.value.args) == 1 and not a.value.keywords:
                it = a.targets[0].id
                j = k + 1
                while j < len(stmts) and isinstance(stmts[j], ast.Assign) and not any(isinstance(y, (ast.Call, ast.Yield, ast.YieldFrom, ast.Await)) or
                                                                                       (isinstance(y, ast.Name) and y.id == it) for y in ast.walk(stmts[j])):
                    j += 1
                if j + 1 < len(stmts) and all(isinstance(stmts[x], ast.For) and isinstance(stmts[x].iter, ast.Name) and stmts[x].iter.id == it and not stmts[x].orelse
                                                and isinstance(stmts[x].target, ast.Name) for x in (j, j + 1)):
                    l1, l2 = stmts[j], stmts[j + 1]
                    uses = sum(1 for y in ast.walk(fn) if isinstance(y, ast.Name) and y.id == it)
                    if uses == 3 and l1.target.id == l2.target.id and tail_breaks_only(l1.body) and not has_own_break(l2.body):
                        flag = "%s__second" % it

                        class B(ast.NodeTransformer):
                            def visit_For(self, node):
                                return node
                            visit_While = visit_AsyncFor = visit_FunctionDef = visit_AsyncFunctionDef = visit_For

                            def visit_Break(self, node):
                                return ast.copy_location(ast.Assign(targets=[ast.Name(id=flag, ctx=ast.Store())], value=ast.Constant(value=True)), node)
                        b1 = [B().visit(x) for x in l1.body]
                        init = ast.copy_location(ast.Assign(targets=[ast.Name(id=flag, ctx=ast.Store())], value=ast.Constant(value=False)), a)
                        merged = ast.copy_location(ast.For(target=l1.target, iter=a.value.args[0], orelse=[], type_comment=None, body=[
                            ast.copy_location(ast.If(test=ast.UnaryOp(op=ast.Not(), operand=ast.Name(id=flag, ctx=ast.Load())), body=b1, orelse=l2.body), l1)]), l1)
                        ast.fix_missing_locations(init)
                        ast.fix_missing_locations(merged)
                        stmts[k:j + 2] = [init] + stmts[k + 1:j] + [merged]
                        continue
            k += 1
    visit(fn.body)


def _for_over_temp(fn):
    """   t = a.b.c                    A local that names an attribute chain (no call) for the loop right after it, and is mentioned
          for x in t: ...   ->  for x in a.b.c: ...     nowhere else, is the chain itself: the iterable is evaluated once, at the same point."""
    def count(name):
        return sum(1 for y in ast.walk(fn) if isinstance(y, ast.Name) and y.id == name)

    def process(stmts):
        k = 0
        while k < len(stmts):
            st = stmts[k]
            for fld in ("body", "orelse", "finalbody"):
                sub = getattr(st, fld, None)
                if isinstance(sub, list) and sub and isinstance(sub[0], ast.stmt) and not isinstance(st, (ast.FunctionDef, ast.AsyncFunctionDef, ast.ClassDef)):
                    process(sub)
            for h in getattr(st, "handlers", []) or []:
                process(h.body)
            if k + 1 < len(stmts) and isinstance(st, ast.Assign) and len(st.targets) == 1 and isinstance(st.targets[0], ast.Name) \
                    and isinstance(st.value, ast.Attribute) and _is_chain(st.value) and isinstance(stmts[k + 1], ast.For) \
                    and isinstance(stmts[k + 1].iter, ast.Name) and stmts[k + 1].iter.id == st.targets[0].id and count(st.targets[0].id) == 2:
                stmts[k + 1].iter = st.value
                del stmts[k]
                continue
            # `t = E` / `if t:` (or `if not t:`), t mentioned nowhere else: the condition is E, evaluated at the same point
            # (when E runs nothing - no call - plain local assignments that run nothing either may stand in between)
            j = k + 1
            if isinstance(st, ast.Assign) and len(st.targets) == 1 and isinstance(st.targets[0], ast.Name) \
                    and not any(isinstance(y, (ast.Call, ast.Yield, ast.YieldFrom, ast.Await, ast.NamedExpr)) for y in ast.walk(st.value)):
                reads = set(y.id for y in ast.walk(st.value) if isinstance(y, ast.Name))
                while j < len(stmts) and isinstance(stmts[j], ast.Assign) and len(stmts[j].targets) == 1 and isinstance(stmts[j].targets[0], ast.Name) \
                        and stmts[j].targets[0].id not in reads and stmts[j].targets[0].id != st.targets[0].id \
                        and not any(isinstance(y, (ast.Call, ast.Yield, ast.YieldFrom, ast.Await, ast.NamedExpr)) for y in ast.walk(stmts[j].value)) \
                        and not any(isinstance(y, ast.Name) and y.id == st.targets[0].id for y in ast.walk(stmts[j].value)):
                    j += 1
            if j < len(stmts) and isinstance(st, ast.Assign) and len(st.targets) == 1 and isinstance(st.targets[0], ast.Name) \
                    and isinstance(stmts[j], ast.If) and count(st.targets[0].id) == 2 \
                    and not any(isinstance(y, (ast.Yield, ast.YieldFrom, ast.Await, ast.NamedExpr)) for y in ast.walk(st.value)):
                tst = stmts[j].test
                inner = tst.operand if isinstance(tst, ast.UnaryOp) and isinstance(tst.op, ast.Not) else tst
                if isinstance(inner, ast.Name) and inner.id == st.targets[0].id and isinstance(st.value, (ast.Compare, ast.Call, ast.BoolOp, ast.UnaryOp, ast.Attribute)):
                    if inner is tst:
                        stmts[j].test = st.value
                    else:
                        tst.operand = st.value
                    del stmts[k]
                    continue
            k += 1
    process(fn.body)


def _parallel_counter_to_index(fn):
    """   c = K                                   A local that counts the iterations of a `for v in range(n)` loop by hand - bound to an
          for v in range(n):          for v in range(n):      integer constant right before the loop, incremented by one as the first statement of
              c += 1            ->        ... v + (K+1) ...   the body, stored nowhere else and read only inside the loop - is the loop index plus a
              ... c ...                                       constant: its reads are written that way and the counter is dropped."""
    nested_names = set()
    for n in ast.walk(fn):
        if isinstance(n, (ast.FunctionDef, ast.AsyncFunctionDef, ast.Lambda, ast.ClassDef)) and n is not fn:
            for y in ast.walk(n):
                if isinstance(y, ast.Name):
                    nested_names.add(y.id)
        elif isinstance(n, (ast.Global, ast.Nonlocal)):
            nested_names.update(n.names)

    def process(stmts):
        k = 0
        while k < len(stmts):
            st = stmts[k]
            for fld in ("body", "orelse", "finalbody"):
                sub = getattr(st, fld, None)
                if isinstance(sub, list) and sub and isinstance(sub[0], ast.stmt):
                    process(sub)
            for h in getattr(st, "handlers", []) or []:
                process(h.body)
            if k + 1 < len(stmts) and isinstance(st, ast.Assign) and len(st.targets) == 1 and isinstance(st.targets[0], ast.Name) \
                    and isinstance(st.value, ast.Constant) and type(st.value.value) is int:
                c = st.targets[0].id
                lp = stmts[k + 1]
                if isinstance(lp, ast.For) and isinstance(lp.target, ast.Name) and isinstance(lp.iter, ast.Call) and isinstance(lp.iter.func, ast.Name) \
                        and lp.iter.func.id == "range" and len(lp.iter.args) == 1 and not lp.iter.keywords and not lp.orelse and lp.body \
                        and isinstance(lp.body[0], ast.AugAssign) and isinstance(lp.body[0].op, ast.Add) and isinstance(lp.body[0].target, ast.Name) \
                        and lp.body[0].target.id == c and isinstance(lp.body[0].value, ast.Constant) and lp.body[0].value.value == 1 and type(lp.body[0].value.value) is int \
                        and c not in nested_names and c != lp.target.id:
                    stores = [y for y in ast.walk(fn) if isinstance(y, ast.Name) and y.id == c and isinstance(y.ctx, (ast.Store, ast.Del))]
                    loads = [y for y in ast.walk(fn) if isinstance(y, ast.Name) and y.id == c and isinstance(y.ctx, ast.Load)]
                    inside = set(id(y) for b in lp.body[1:] for y in ast.walk(b))
                    v_stores = [y for b in lp.body for y in ast.walk(b) if isinstance(y, ast.Name) and y.id == lp.target.id and isinstance(y.ctx, (ast.Store, ast.Del))]
                    if len(stores) == 2 and all(id(y) in inside for y in loads) and not v_stores:
                        off = st.value.value + 1
                        v = lp.target.id

                        class Sub(ast.NodeTransformer):
                            def visit_Name(self, node):
                                if node.id == c and isinstance(node.ctx, ast.Load):
                                    new = ast.Name(id=v, ctx=ast.Load()) if off == 0 else \
                                        ast.BinOp(left=ast.Name(id=v, ctx=ast.Load()), op=ast.Add(), right=ast.Constant(value=off))
                                    return ast.copy_location(new, node)
                                return node
                        lp.body = [ast.fix_missing_locations(Sub().visit(b)) for b in lp.body[1:]] or [ast.Pass()]
                        del stmts[k]
                        continue
            k += 1
    process(fn.body)


def normalize_module(tree):
    _kwargs_to_positional(tree)
    _partial_to_def(tree)
    _partial_method_to_def(tree)
    _closure_factory_to_def(tree)
    for fn in [n for n in ast.walk(tree) if isinstance(n, (ast.FunctionDef, ast.AsyncFunctionDef))]:
        _lower_ifexp(fn)
    for fn in [n for n in ast.walk(tree) if isinstance(n, (ast.FunctionDef, ast.AsyncFunctionDef))]:
        _merge_shared_iter_loops(fn)
        _fold_bool_chain(fn)
        _merge_isinstance_or(fn)
        _unroll_const_for(fn)
        _lower_bool_flags(fn)
    for fn in [n for n in ast.walk(tree) if isinstance(n, (ast.FunctionDef, ast.AsyncFunctionDef))]:
        _sink_flag_test(fn)
    for fn in [n for n in ast.walk(tree) if isinstance(n, (ast.FunctionDef, ast.AsyncFunctionDef))]:
        _index_loop_to_for(fn)
    for fn in [n for n in ast.walk(tree) if isinstance(n, (ast.FunctionDef, ast.AsyncFunctionDef))]:
        _parallel_counter_to_index(fn)
        _reverse_then_for(fn)
        _for_over_temp(fn)
    for fn in [n for n in ast.walk(tree) if isinstance(n, (ast.FunctionDef, ast.AsyncFunctionDef))]:
        _inline_single_use_temps(fn)
    for fn in [n for n in ast.walk(tree) if isinstance(n, (ast.FunctionDef, ast.AsyncFunctionDef))]:
        _split_tuple_assigns(fn)
        _unpack_to_subscripts(fn)
    stored_anywhere = set(n.attr for n in ast.walk(tree) if isinstance(n, ast.Attribute) and isinstance(n.ctx, (ast.Store, ast.Del)))
    class_level = set(t.id for c in ast.walk(tree) if isinstance(c, ast.ClassDef) for st in c.body if isinstance(st, ast.Assign)
                      for t in st.targets if isinstance(t, ast.Name) and isinstance(st.value, (ast.Dict, ast.List, ast.Set, ast.Call)))
    # module-level names bound exactly once at import time and never rebound through `global`
    counts = {}
    for st in tree.body:
        for n in ([st] if isinstance(st, (ast.Assign, ast.AnnAssign, ast.AugAssign, ast.Import, ast.ImportFrom, ast.FunctionDef, ast.ClassDef)) else ast.walk(st)):
            if isinstance(n, ast.Assign):
                for t in n.targets:
                    for y in ast.walk(t):
                        if isinstance(y, ast.Name):
                            counts[y.id] = counts.get(y.id, 0) + 1
            elif isinstance(n, (ast.AnnAssign, ast.AugAssign)) and isinstance(n.target, ast.Name):
                counts[n.target.id] = counts.get(n.target.id, 0) + (2 if isinstance(n, ast.AugAssign) else 1)
    for n in ast.walk(tree):
        if isinstance(n, ast.Global):
            for x in n.names:
                counts[x] = counts.get(x, 0) + 2
    stable = frozenset(k for k, v in counts.items() if v == 1)
    for fn in [n for n in ast.walk(tree) if isinstance(n, (ast.FunctionDef, ast.AsyncFunctionDef))]:
        _propagate_self_snapshots(fn)
    for fn in [n for n in ast.walk(tree) if isinstance(n, (ast.FunctionDef, ast.AsyncFunctionDef))]:
        _sink_tail_return(fn)
        _return_temp(fn)
    for fn in [n for n in ast.walk(tree) if isinstance(n, (ast.FunctionDef, ast.AsyncFunctionDef))]:
        _propagate_aliases(fn, frozenset(class_level - stored_anywhere), stable)


# ------------------------------------------------------------------------------------------
# package-level normalisation: a guard that every caller establishes is (also) put into the callee
# ------------------------------------------------------------------------------------------

def normalize_package(trees):
    """For a private function / method (leading underscore or a module-level helper not in the baseline... here: any name) ALL of whose
    call sites in the package are lexically guarded by the same condition on an argument (`a is not None`) or on a field of the
    receiver (`x.flag` / `not x.flag`), the equivalent early return is inserted at the top of the callee, unless it is there
    already.  The callers are left as they are; the inserted test is redundant by construction, so behaviour is unchanged, and the
    rules see the guard where they look for it whether the author wrote it in the callee or in the callers.  Returns notes."""
    notes = []
    defs = {}        # name -> [(tree name, FunctionDef, is_method)]
    for tn, tree in trees.items():
        for node in tree.body:
            if isinstance(node, ast.FunctionDef):
                defs.setdefault(node.name, []).append((tn, node, False))
            elif isinstance(node, ast.ClassDef):
                for sub in node.body:
                    if isinstance(sub, ast.FunctionDef):
                        defs.setdefault(sub.name, []).append((tn, sub, True))
    parents = {}
    for tree in trees.values():
        for p in ast.walk(tree):
            for c in ast.iter_child_nodes(p):
                parents[id(c)] = p
    calls = {}       # name -> [call nodes]
    for tree in trees.values():
        for n in ast.walk(tree):
            if isinstance(n, ast.Call):
                nm = n.func.id if isinstance(n.func, ast.Name) else (n.func.attr if isinstance(n.func, ast.Attribute) else None)
                if nm in defs:
                    calls.setdefault(nm, []).append(n)
            elif isinstance(n, (ast.Name, ast.Attribute)) and isinstance(getattr(n, "ctx", None), ast.Load):
                # a function that is also passed around as a value has call sites we do not see
                nm = n.id if isinstance(n, ast.Name) else n.attr
                par = parents.get(id(n))
                if nm in defs and not (isinstance(par, ast.Call) and par.func is n):
                    calls.setdefault(nm, []).append(None)

    def strip_not(e):
        pos = True
        while isinstance(e, ast.UnaryOp) and isinstance(e.op, ast.Not):
            e, pos = e.operand, not pos
        return e, pos

    def established(call, want):
        """Is `want` = (kind, expr source, polarity) established on the way to `call` by enclosing ifs?"""
        cur = call
        while id(cur) in parents:
            par = parents[id(cur)]
            if isinstance(par, ast.If):
                in_body = any(cur is x or any(cur is y for y in ast.walk(x)) for x in par.body)
                in_else = any(cur is x or any(cur is y for y in ast.walk(x)) for x in par.orelse)
                tests = [par.test]
                if isinstance(par.test, ast.BoolOp) and isinstance(par.test.op, ast.And) and in_body:
                    tests = list(par.test.values)
                for t in tests:
                    e, pos = strip_not(t)
                    fact = None
                    if isinstance(e, ast.Compare) and len(e.ops) == 1 and isinstance(e.ops[0], (ast.Is, ast.IsNot)) and isinstance(e.comparators[0], ast.Constant) \
                            and e.comparators[0].value is None:
                        isnone = isinstance(e.ops[0], ast.Is) == pos
                        fact = ("isnone", ast.unparse(e.left), isnone)
                    elif isinstance(e, (ast.Name, ast.Attribute)):
                        fact = ("truth", ast.unparse(e), pos)
                    if fact is None:
                        continue
                    if in_else and not in_body and len(tests) == 1:
                        fact = (fact[0], fact[1], not fact[2])
                    elif not in_body:
                        continue
                    if fact == want:
                        return True
            if isinstance(par, (ast.FunctionDef, ast.AsyncFunctionDef, ast.ClassDef, ast.Lambda)):
                return False
            cur = par
        return False

    for name, dl in defs.items():
        if len(dl) != 1 or name.startswith("__"):
            continue
        tn, fn, is_method = dl[0]
        cs = calls.get(name, [])
        if not cs or any(c is None for c in cs):
            continue
        if fn.decorator_list or fn.args.vararg or fn.args.kwarg or any(isinstance(x, (ast.Yield, ast.YieldFrom, ast.Await)) for x in ast.walk(fn)):
            continue
        params = [a.arg for a in fn.args.args]
        cands = []
        # (1) an argument that is not None
        for i, p in enumerate(params[1:] if is_method else params):
            srcs = []
            for c in cs:
                args = c.args
                if i < len(args) and isinstance(args[i], ast.Name) and not any(isinstance(a, ast.Starred) for a in args):
                    srcs.append((c, args[i].id))
                else:
                    srcs = None
                    break
            if srcs and all(established(c, ("isnone", a, False)) for c, a in srcs):
                cands.append(("isnone", p))
        # (2) a boolean field of the receiver
        if is_method and all(isinstance(c.func, ast.Attribute) and isinstance(c.func.value, ast.Name) for c in cs):
            fields = None
            for c in cs:
                recv = c.func.value.id
                here = set()
                cur = c
                while id(cur) in parents:
                    par = parents[id(cur)]
                    if isinstance(par, ast.If):
                        for t in ([par.test] + (list(par.test.values) if isinstance(par.test, ast.BoolOp) and isinstance(par.test.op, ast.And) else [])):
                            e, pos = strip_not(t)
                            if isinstance(e, ast.Attribute) and isinstance(e.value, ast.Name) and e.value.id == recv:
                                for polarity in (True, False):
                                    if established(c, ("truth", "%s.%s" % (recv, e.attr), polarity)):
                                        here.add((e.attr, polarity))
                    if isinstance(par, (ast.FunctionDef, ast.AsyncFunctionDef)):
                        break
                    cur = par
                fields = here if fields is None else (fields & here)
            for attr, polarity in sorted(fields or ()):
                cands.append(("truth", attr, polarity))
        body = [s_ for s_ in fn.body if not (isinstance(s_, ast.Expr) and isinstance(s_.value, ast.Constant))]
        for cand in cands:
            if cand[0] == "isnone":
                test = ast.Compare(left=ast.Name(id=cand[1], ctx=ast.Load()), ops=[ast.Is()], comparators=[ast.Constant(value=None)])
            else:
                attr_ = ast.Attribute(value=ast.Name(id=params[0], ctx=ast.Load()), attr=cand[1], ctx=ast.Load())
                test = ast.UnaryOp(op=ast.Not(), operand=attr_) if cand[2] else attr_
            tsrc = ast.unparse(test)
            # already there (first statement is an if with that test that returns)?
            first = body[0] if body else None
            if isinstance(first, ast.If) and ast.unparse(first.test).replace("(", "").replace(")", "") == tsrc.replace("(", "").replace(")", ""):
                continue
            # or the whole body already sits under the complementary test
            if isinstance(first, ast.If) and len(body) == 1 and not first.orelse:
                e, pos = strip_not(first.test)
                comp = ast.unparse(ast.UnaryOp(op=ast.Not(), operand=first.test)) if True else ""
                if cand[0] == "isnone" and isinstance(e, ast.Compare) and ast.unparse(e.left) == cand[1] and isinstance(e.ops[0], ast.IsNot) and pos:
                    continue
                if cand[0] == "truth" and isinstance(e, ast.Attribute) and ast.unparse(e) == "%s.%s" % (params[0], cand[1]) and pos == cand[2]:
                    continue
            guard = ast.If(test=test, body=[ast.Return(value=None)], orelse=[])
            ln = fn.body[0].lineno if fn.body else fn.lineno
            for n_ in ast.walk(guard):
                n_.lineno = ln
                n_.col_offset = 0
                n_.end_lineno = ln
                n_.end_col_offset = 0
            idx = 1 if (fn.body and isinstance(fn.body[0], ast.Expr) and isinstance(fn.body[0].value, ast.Constant) and isinstance(fn.body[0].value.value, str)) else 0
            fn.body.insert(idx, guard)
            notes.append("%s.%s: guard `%s` established by all %d call sites" % (tn, name, tsrc, len(cs)))
    return notes
