"""Helper inlining on the AST, so that "extract a few statements into a new private helper" is a
non-event for the rules.

Only functions that did not exist on the pinned tree (sa/baseline_functions.txt) are ever inlined:
every function the rules know by role or name keeps its identity.  A new private helper
(`_name`, not a dunder) defined in the same class / module is inlined at each call site of the
forms `self._h(args)` / `_h(args)` used as a statement, as `return <call>` or as `x = <call>`
when its shape allows it (no yield, no recursion, no *args/**kwargs, returns only in tail
position).  Helpers all of whose call sites were inlined are dropped from the function tables -
their code is analysed where it runs.  When a helper cannot be inlined it is left alone (the
rules then see a call to an unknown private method and decide or give up as usual)."""
import ast
import copy
import os

HERE = os.path.dirname(os.path.abspath(__file__))
_baseline = None


def baseline():
    global _baseline
    if _baseline is None:
        p = os.path.join(HERE, "baseline_functions.txt")
        _baseline = set()
        if os.path.exists(p):
            with open(p) as f:
                _baseline = set(l.strip() for l in f if l.strip())
    return _baseline


def _has(node, types):
    for n in ast.walk(node):
        if n is not node and isinstance(n, (ast.FunctionDef, ast.AsyncFunctionDef, ast.Lambda)):
            continue
        if isinstance(n, types):
            return True
    return False


def _own_nodes(fn):
    """Nodes of fn's body not inside nested function definitions."""
    stack = list(fn.body)
    while stack:
        n = stack.pop()
        yield n
        if isinstance(n, (ast.FunctionDef, ast.AsyncFunctionDef, ast.Lambda, ast.ClassDef)):
            continue
        stack.extend(ast.iter_child_nodes(n))


def _returns(fn):
    return [n for n in _own_nodes(fn) if isinstance(n, ast.Return)]


def _tail_only_returns(fn):
    """Every Return is in tail position (last statement of the function, possibly nested in the
    last if/else / try of a tail position)."""
    tails = set()

    def mark(stmts):
        if not stmts:
            return
        last = stmts[-1]
        tails.add(id(last))
        if isinstance(last, ast.If):
            mark(last.body)
            mark(last.orelse)
    mark(fn.body)
    return all(id(r) in tails for r in _returns(fn))


def _locals_of(fn):
    out = set()
    for n in _own_nodes(fn):
        if isinstance(n, ast.Name) and isinstance(n.ctx, (ast.Store, ast.Del)):
            out.add(n.id)
        elif isinstance(n, (ast.FunctionDef, ast.AsyncFunctionDef, ast.ClassDef)):
            out.add(n.name)
        elif isinstance(n, ast.ExceptHandler) and n.name:
            out.add(n.name)
    return out


def _names_of(fn):
    out = set(a.arg for a in fn.args.posonlyargs + fn.args.args + fn.args.kwonlyargs)
    if fn.args.vararg:
        out.add(fn.args.vararg.arg)
    if fn.args.kwarg:
        out.add(fn.args.kwarg.arg)
    for n in ast.walk(fn):
        if isinstance(n, ast.Name):
            out.add(n.id)
    return out


class _Subst(ast.NodeTransformer):
    def __init__(self, mapping, rename):
        self.mapping = mapping
        self.rename = rename

    def visit_Name(self, node):
        if node.id in self.mapping and isinstance(node.ctx, ast.Load):
            new = copy.deepcopy(self.mapping[node.id])
            return ast.copy_location(new, node)
        if node.id in self.rename:
            return ast.copy_location(ast.Name(id=self.rename[node.id], ctx=node.ctx), node)
        return node

    def visit_FunctionDef(self, node):
        if node.name in self.rename:
            node.name = self.rename[node.name]
        self.generic_visit(node)
        return node

    def visit_ExceptHandler(self, node):
        if node.name and node.name in self.rename:
            node.name = self.rename[node.name]
        self.generic_visit(node)
        return node


def _simple(e):
    if isinstance(e, (ast.Name, ast.Constant)):
        return True
    if isinstance(e, ast.Attribute):
        return _simple(e.value)
    return False


def _bind(call, helper, is_method):
    """param -> argument expression, or None when the call cannot be bound simply."""
    a = helper.args
    if a.vararg or a.kwarg or a.kwonlyargs or a.posonlyargs:
        return None
    if any(isinstance(x, ast.Starred) for x in call.args) or any(k.arg is None for k in call.keywords):
        return None
    params = [p.arg for p in a.args]
    mapping = {}
    if is_method:
        if not params:
            return None
        mapping[params[0]] = ast.Name(id="self", ctx=ast.Load())
        params = params[1:]
    if len(call.args) > len(params):
        return None
    for p, v in zip(params, call.args):
        mapping[p] = v
    for k in call.keywords:
        if k.arg not in params or k.arg in mapping:
            return None
        mapping[k.arg] = k.value
    defaults = dict(zip([p.arg for p in a.args][len(a.args) - len(a.defaults):], a.defaults))
    for p in params:
        if p not in mapping:
            if p in defaults:
                mapping[p] = defaults[p]
            else:
                return None
    return mapping


def _inlinable(helper):
    if isinstance(helper, ast.AsyncFunctionDef):
        return False
    if helper.decorator_list:
        return False
    if _has(helper, (ast.Yield, ast.YieldFrom, ast.Await, ast.Global, ast.Nonlocal)):
        return False
    for n in _own_nodes(helper):
        if isinstance(n, ast.Call):
            f = n.func
            if isinstance(f, ast.Attribute) and isinstance(f.value, ast.Name) and f.value.id == "self" and f.attr == helper.name:
                return False
            if isinstance(f, ast.Name) and f.id == helper.name:
                return False
    return _tail_only_returns(helper)


def _expand(call, helper, is_method, context, target, caller):
    """Statement list replacing the call, or None."""
    mapping = _bind(call, helper, is_method)
    if mapping is None:
        return None
    rets = _returns(helper)
    valued = [r for r in rets if r.value is not None]
    if context == "stmt" and valued:
        return None
    if context == "assign":
        if len(rets) != 1 or rets[0] is not helper.body[-1] or rets[0].value is None:
            return None
    pre = []
    # parameters assigned inside the helper, or bound to non-simple arguments used more than once, become locals
    stored = set(n.id for n in _own_nodes(helper) if isinstance(n, ast.Name) and isinstance(n.ctx, ast.Store))
    uses = {}
    for n in ast.walk(helper):
        if isinstance(n, ast.Name) and isinstance(n.ctx, ast.Load):
            uses[n.id] = uses.get(n.id, 0) + 1
    caller_names = _names_of(caller)
    rename = {}
    for loc in _locals_of(helper):
        if loc in mapping and loc not in stored:
            continue
        if loc in caller_names:
            rename[loc] = loc + "__inl"
    final_map = {}
    for p, v in mapping.items():
        if p in stored or (not _simple(v) and uses.get(p, 0) > 1):
            newname = rename.get(p, p if p not in caller_names else p + "__inl")
            rename[p] = newname
            pre.append(ast.copy_location(ast.Assign(targets=[ast.Name(id=newname, ctx=ast.Store())], value=copy.deepcopy(v), lineno=call.lineno), call))
        else:
            final_map[p] = v
    body = [copy.deepcopy(s) for s in helper.body]
    # drop a leading docstring
    if body and isinstance(body[0], ast.Expr) and isinstance(body[0].value, ast.Constant) and isinstance(body[0].value.value, str):
        body = body[1:]
    sub = _Subst(final_map, rename)
    body = [sub.visit(s) for s in body]
    for s in pre:
        ast.fix_missing_locations(s)
    if context == "stmt":
        # a trailing bare `return` is dropped
        def strip(stmts):
            if stmts and isinstance(stmts[-1], ast.Return) and stmts[-1].value is None:
                stmts.pop()
                if not stmts:
                    stmts.append(ast.Pass())
            elif stmts and isinstance(stmts[-1], ast.If):
                strip(stmts[-1].body)
                if stmts[-1].orelse:
                    strip(stmts[-1].orelse)
        strip(body)
        if not body:
            body = [ast.Pass()]
    elif context == "return":
        last = body[-1] if body else None
        if not isinstance(last, (ast.Return, ast.Raise)):
            body.append(ast.Return(value=ast.Constant(value=None)))
    elif context == "assign":
        ret = body.pop()
        body.append(ast.Assign(targets=[copy.deepcopy(target)], value=ret.value))
    out = pre + body
    for s in out:
        for n in ast.walk(s):
            if not hasattr(n, "lineno"):
                n.lineno = call.lineno
                n.col_offset = 0
            if not hasattr(n, "end_lineno") or n.end_lineno is None:
                n.end_lineno = getattr(n, "lineno", call.lineno)
                n.end_col_offset = 0
    return out


def inline_module(tree, modname):
    """Rewrites `tree` in place.  Returns {class name or None: set(helper names dropped)}."""
    base = baseline()
    if not base:
        return {}
    dropped = {}
    classes = dict((c.name, c) for c in tree.body if isinstance(c, ast.ClassDef))

    def own_helpers(cname, body):
        out = {}
        for f in body:
            if not isinstance(f, (ast.FunctionDef, ast.AsyncFunctionDef)):
                continue
            name = f.name
            qual = "%s.%s" % (modname, name) if cname is None else "%s.%s.%s" % (modname, cname, name)
            if qual in base or not name.startswith("_") or (name.startswith("__") and name.endswith("__")):
                continue
            if _inlinable(f):
                out[name] = f
        return out

    def base_chain(cname, seen=()):
        out = []
        c = classes.get(cname)
        if c is None or cname in seen:
            return out
        for b in c.bases:
            bn = b.id if isinstance(b, ast.Name) else None
            if bn in classes:
                out.append(bn)
                out += base_chain(bn, seen + (cname,))
        return out

    owner_body = {}
    scopes = [(None, tree.body)] + [(c.name, c.body) for c in tree.body if isinstance(c, ast.ClassDef)]
    for cname, body in scopes:
        funcs = dict((f.name, f) for f in body if isinstance(f, (ast.FunctionDef, ast.AsyncFunctionDef)))
        helpers = own_helpers(cname, body)
        for h in helpers:
            owner_body[id(helpers[h])] = (cname, body)
        if cname is not None:
            # private helpers of base classes of the same module are visible through self, unless overridden
            for bn in base_chain(cname):
                for hn, hf in own_helpers(bn, classes[bn].body).items():
                    if hn not in funcs and hn not in helpers:
                        helpers[hn] = hf
                        owner_body[id(hf)] = (bn, classes[bn].body)
        if not helpers:
            continue
        remaining = dict((h, 0) for h in helpers)
        inlined = dict((h, 0) for h in helpers)
        # callers: for the module scope every function of the module (incl. methods); for a class its methods
        if cname is None:
            callers = [f for f in ast.walk(tree) if isinstance(f, (ast.FunctionDef, ast.AsyncFunctionDef))]
        else:
            callers = list(funcs.values())
        for _round in range(3):
            changed = False
            for caller in callers:
                def match(call):
                    f = call.func
                    if cname is None and isinstance(f, ast.Name) and f.id in helpers and helpers[f.id] is not caller:
                        return helpers[f.id]
                    if cname is not None and isinstance(f, ast.Attribute) and isinstance(f.value, ast.Name) and f.value.id == "self" \
                            and f.attr in helpers and helpers[f.attr] is not caller:
                        return helpers[f.attr]
                    return None

                def rewrite(stmts):
                    nonlocal changed
                    i = 0
                    while i < len(stmts):
                        s = stmts[i]
                        rep = None
                        if isinstance(s, ast.Expr) and isinstance(s.value, ast.Call) and match(s.value) is not None:
                            rep = _expand(s.value, match(s.value), cname is not None, "stmt", None, caller)
                        elif isinstance(s, ast.Return) and isinstance(s.value, ast.Call) and match(s.value) is not None:
                            rep = _expand(s.value, match(s.value), cname is not None, "return", None, caller)
                        elif isinstance(s, ast.Assign) and len(s.targets) == 1 and isinstance(s.value, ast.Call) and match(s.value) is not None:
                            rep = _expand(s.value, match(s.value), cname is not None, "assign", s.targets[0], caller)
                        if rep is not None:
                            h = match(s.value)
                            inlined[h.name] += 1
                            stmts[i:i + 1] = rep
                            changed = True
                            i += len(rep)
                            continue
                        for fld in ("body", "orelse", "finalbody"):
                            sub = getattr(s, fld, None)
                            if isinstance(sub, list) and not isinstance(s, (ast.FunctionDef, ast.AsyncFunctionDef, ast.ClassDef)):
                                rewrite(sub)
                        for h in getattr(s, "handlers", []) or []:
                            rewrite(h.body)
                        i += 1
                rewrite(caller.body)
                # helpers that are a single `return <expr>` are also substituted in expression position
                class ExprInl(ast.NodeTransformer):
                    def visit_FunctionDef(self, node):
                        if node is not caller:
                            return node
                        self.generic_visit(node)
                        return node
                    visit_AsyncFunctionDef = visit_FunctionDef

                    def visit_Lambda(self, node):
                        self.generic_visit(node)
                        return node

                    def visit_Call(self, node):
                        self.generic_visit(node)
                        h = match(node)
                        if h is None:
                            return node
                        hb = [s_ for s_ in h.body if not (isinstance(s_, ast.Expr) and isinstance(s_.value, ast.Constant))]
                        if len(hb) != 1 or not isinstance(hb[0], ast.Return) or hb[0].value is None:
                            return node
                        mapping = _bind(node, h, cname is not None)
                        if mapping is None or not all(_simple(v) for v in mapping.values()):
                            return node
                        new = _Subst(mapping, {}).visit(copy.deepcopy(hb[0].value))
                        for n_ in ast.walk(new):
                            n_.lineno = getattr(node, "lineno", 1)
                            n_.col_offset = getattr(node, "col_offset", 0)
                            n_.end_lineno = getattr(node, "end_lineno", n_.lineno)
                            n_.end_col_offset = getattr(node, "end_col_offset", 0)
                        inlined[h.name] += 1
                        nonlocal_changed[0] = True
                        return new
                nonlocal_changed = [False]
                ExprInl().visit(caller)
                if nonlocal_changed[0]:
                    changed = True
            if not changed:
                break
        # remaining (non-inlined) references anywhere in the module
        for n in ast.walk(tree):
            if isinstance(n, ast.Attribute) and n.attr in helpers and cname is not None:
                remaining[n.attr] += 1
            elif isinstance(n, ast.Name) and n.id in helpers and cname is None and isinstance(n.ctx, ast.Load):
                remaining[n.id] += 1
        for h, f in helpers.items():
            # references inside the helper's own (now dead) body do not count
            own = 0
            for n in ast.walk(f):
                if cname is not None and isinstance(n, ast.Attribute) and n.attr == h:
                    own += 1
                if cname is None and isinstance(n, ast.Name) and n.id == h and isinstance(n.ctx, ast.Load):
                    own += 1
            if inlined[h] > 0 and remaining[h] - own == 0:
                ocname, obody = owner_body.get(id(f), (cname, body))
                if f in obody:
                    obody.remove(f)
                    dropped.setdefault(ocname, set()).add(h)
    return dropped
