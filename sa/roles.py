"""Role-based anchors in the scheduler / task / batch mechanism.  A role is found by what the
code does (calls, fields), with the current private name only as a tie-breaker; a role that can
no longer be resolved is an ANALYSIS-ERROR, never a silent pass."""
import ast

from .errors import AnalysisError
from .cfg import cfg_of
from . import q, kit


class Roles(object):
    def __init__(self, R):
        self.R = R
        repo = R.repo
        self.TS = repo.cls("scheduler.TaskScheduler")
        self.AsyncTask = repo.cls("async_task.AsyncTask")
        self.FutureBase = repo.cls("futures.FutureBase")
        self.Future = repo.cls("futures.Future")
        self.BatchBase = repo.cls("batching.BatchBase")
        self.BatchItemBase = repo.cls("batching.BatchItemBase")
        self._cache = {}

    def _memo(self, key, fn):
        if key not in self._cache:
            self._cache[key] = fn()
        return self._cache[key]

    def ts_methods(self):
        return list(self.TS.methods.values())

    # -- who calls BatchBase.flush -----------------------------------------------------
    def is_batch_flush_call(self, fi, call):
        recv, name = q.attr_call(call)
        if name != "flush" or recv is None:
            return False
        classes = self.R.res.expr_class(fi, recv)
        if classes:
            return any(c.is_subclass_of(self.BatchBase) for c in classes)
        # unknown receiver: an external object (stdout/stderr) is not a batch
        d = q.dotted(recv)
        if d:
            r = self.R.repo.resolve_dotted(fi.module, d)
            if r is not None and r[0] == "ext":
                return False
            head = d.split(".")[0]
            if head in ("stdout", "stderr", "sys"):
                return False
        return True

    def flush_sites_in(self, fi):
        return kit.call_sites(fi, lambda c: self.is_batch_flush_call(fi, c))

    def flush_method(self):
        """TaskScheduler method(s) that call BatchBase.flush directly."""
        def find():
            out = [m for m in self.ts_methods() if self.flush_sites_in(m)]
            if not out:
                raise AnalysisError("role vanished: no TaskScheduler method calls BatchBase.flush()")
            return out
        return self._memo("flush_method", find)

    def calls_to(self, fi, targets):
        """[(node, call)] in fi whose resolved targets intersect `targets` (FuncInfo list)."""
        tq = set(t.qualname for t in targets)
        out = []
        cfg = cfg_of(fi)
        resolved = dict((id(c), tg) for c, tg, k in self.R.res.callees(fi) if k in ("resolved", "cha"))
        for n in cfg.nodes:
            for c in kit.node_calls(n):
                tg = resolved.get(id(c), [])
                if any(t.qualname in tq for t in tg):
                    out.append((n, c))
        return out

    def reaches_flush(self, fi, _seen=None):
        """Does calling fi (transitively, user callbacks cut) reach a BatchBase.flush call inside
        TaskScheduler code?"""
        def find():
            flushers = set()
            changed = True
            direct = set(m.qualname for m in self.flush_method())
            flushers |= direct
            while changed:
                changed = False
                for m in self.ts_methods():
                    if m.qualname in flushers:
                        continue
                    for call, tg, kind in self.R.res.callees(m):
                        if kind == "resolved" and any(t.qualname in flushers for t in tg):
                            flushers.add(m.qualname)
                            changed = True
                            break
            return flushers
        fl = self._memo("flushers", find)
        return fi.qualname in fl

    def wait_for(self):
        m = self.TS.methods.get("wait_for")
        if m is None:
            raise AnalysisError("anchor vanished: TaskScheduler.wait_for (public entry point)")
        return m

    def select_method(self):
        def find():
            out = [m for m in self.ts_methods() if kit.attr_call_sites(m, "get_priority")]
            if len(out) != 1:
                raise AnalysisError("role: expected one TaskScheduler method calling get_priority(), found %d" % len(out))
            return out[0]
        return self._memo("select", find)

    def flush_one_method(self):
        """The method wait_for calls to flush one batch (calls select + the flush method)."""
        def find():
            sel = self.select_method()
            out = [m for m in self.ts_methods() if m is not sel and self.calls_to(m, [sel])]
            if len(out) != 1:
                raise AnalysisError("role: expected one caller of %s in TaskScheduler, found %d" % (sel.qualname, len(out)))
            return out[0]
        return self._memo("flush_one", find)

    def drain_method(self):
        """The driver loop: the TaskScheduler method that pops/pushes the task stack in a loop
        and is called from wait_for."""
        def find():
            wf = self.wait_for()
            cands = []
            for m in self.ts_methods():
                if m is wf:
                    continue
                if self.calls_to(wf, [m]) and any(isinstance(n, ast.While) for n in ast.walk(m.node)):
                    cands.append(m)
            if len(cands) != 1:
                raise AnalysisError("role: expected one looping method called from wait_for, found %d" % len(cands))
            return cands[0]
        return self._memo("drain", find)

    def stack_field(self):
        """Name of the list field the drain uses as its stack (appended to and popped)."""
        def find():
            d = self.drain_method()
            apps = set()
            pops = set()
            for m in self.ts_methods():
                for n in ast.walk(m.node):
                    if isinstance(n, ast.Call) and isinstance(n.func, ast.Attribute):
                        r = q.dotted(n.func.value)
                        if r and r.startswith("self."):
                            if n.func.attr == "append":
                                apps.add(r[5:])
                            if n.func.attr == "pop":
                                pops.add(r[5:])
            both = apps & pops
            if len(both) != 1:
                raise AnalysisError("role: task stack field not identifiable (append∩pop = %s)" % sorted(both))
            return both.pop()
        return self._memo("stack", find)

    def batches_field(self):
        def find():
            sel = self.select_method()
            for n in ast.walk(sel.node):
                if isinstance(n, ast.For):
                    d = q.dotted(n.iter)
                    if d and d.startswith("self."):
                        return d[5:]
                    if isinstance(n.iter, ast.Call) and n.iter.args:
                        d = q.dotted(n.iter.args[0])
                        if d and d.startswith("self."):
                            return d[5:]
            raise AnalysisError("role: the collection batches are selected from was not found")
        return self._memo("batches", find)

    def handle_task_method(self):
        """TaskScheduler method that tests task.is_blocked()."""
        def find():
            out = [m for m in self.ts_methods() if kit.attr_call_sites(m, "is_blocked")]
            if len(out) != 1:
                raise AnalysisError("role: expected one TaskScheduler method testing is_blocked(), found %d" % len(out))
            return out[0]
        return self._memo("handle", find)

    def step_method_task(self):
        """AsyncTask method that the scheduler calls to run a task to its next block: the one
        reaching .send/.throw on the generator field, entered from TaskScheduler."""
        def find():
            at = self.AsyncTask
            gens = self.generator_step_fn()
            # callers inside AsyncTask of the stepping function
            out = []
            for m in at.methods.values():
                if self.calls_to(m, [gens]):
                    out.append(m)
            if len(out) != 1:
                raise AnalysisError("role: expected one AsyncTask method driving the generator stepper, found %d" % len(out))
            return out[0]
        return self._memo("step_task", find)

    def generator_field(self):
        def find():
            init = self.AsyncTask.methods.get("__init__")
            if init is None:
                raise AnalysisError("anchor vanished: AsyncTask.__init__")
            params = q.param_names(init.node)
            if len(params) < 2:
                raise AnalysisError("AsyncTask.__init__ has no generator parameter")
            gen_param = params[1]
            for n in ast.walk(init.node):
                if isinstance(n, ast.Assign) and isinstance(n.value, ast.Name) and n.value.id == gen_param:
                    for t in n.targets:
                        if isinstance(t, ast.Attribute) and q.dotted(t.value) == "self":
                            return t.attr
            raise AnalysisError("role: field holding the task's generator not found")
        return self._memo("genfield", find)

    def generator_step_fn(self):
        """AsyncTask method containing .send/.throw on the generator field."""
        def find():
            g = "self." + self.generator_field()
            out = []
            for m in self.AsyncTask.methods.values():
                if kit.call_sites(m, lambda c: q.attr_call(c)[1] in ("send", "throw") and q.dotted(q.attr_call(c)[0]) == g):
                    out.append(m)
            if len(out) != 1:
                raise AnalysisError("role: expected one AsyncTask method stepping the generator, found %d" % len(out))
            return out[0]
        return self._memo("genstep", find)

    def step_sites(self, fi=None):
        g = "self." + self.generator_field()
        fi = fi or self.generator_step_fn()
        return kit.call_sites(fi, lambda c: q.attr_call(c)[1] in ("send", "throw") and q.dotted(q.attr_call(c)[0]) == g)

    def continue_task_method(self):
        """TaskScheduler method that calls the AsyncTask step method."""
        def find():
            st = self.step_method_task()
            out = [m for m in self.ts_methods() if self.calls_to(m, [st])]
            if len(out) != 1:
                raise AnalysisError("role: expected one TaskScheduler method stepping tasks, found %d" % len(out))
            return out[0]
        return self._memo("continue_task", find)


    # -- completion of a future through (chains of) self-calls --------------------------------
    def completes_with(self, fi, _seen=None):
        """If calling method fi completes `self` with one of its parameters, returns
        (kind 'value'|'error', parameter name); else None.  Follows self-calls that forward the
        parameter unchanged."""
        seen = _seen if _seen is not None else set()
        if fi.qualname in seen:
            return None
        seen.add(fi.qualname)
        params = q.param_names(fi.node)
        for c in q.calls(fi.node):
            recv, name = q.attr_call(c)
            if recv is None or q.dotted(recv) != "self" or not c.args or not isinstance(c.args[0], ast.Name) or c.args[0].id not in params:
                continue
            if name == "set_value":
                return ("value", c.args[0].id)
            if name == "set_error":
                return ("error", c.args[0].id)
        for c in q.calls(fi.node):
            recv, name = q.attr_call(c)
            if recv is None or q.dotted(recv) != "self" or not c.args or not isinstance(c.args[0], ast.Name) or c.args[0].id not in params:
                continue
            if fi.cls is None:
                continue
            t = fi.cls.find_method(name)
            if t is not None and t is not fi:
                r = self.completes_with(t, seen)
                if r is not None and q.param_names(t.node)[1:2] == [r[1]]:
                    return (r[0], c.args[0].id)
        return None

    def completing_calls(self, fi):
        """[(cfg node, call, kind, value expr)] for the calls in fi that complete `self`."""
        out = []
        cfg = cfg_of(fi)
        for n in cfg.nodes:
            for c in kit.node_calls(n):
                recv, name = q.attr_call(c)
                if recv is None or q.dotted(recv) != "self" or not c.args:
                    continue
                if name == "set_value":
                    out.append((n, c, "value", c.args[0]))
                elif name == "set_error":
                    out.append((n, c, "error", c.args[0]))
                elif fi.cls is not None:
                    t = fi.cls.find_method(name)
                    if t is not None:
                        r = self.completes_with(t)
                        if r is not None and q.param_names(t.node)[1:2] == [r[1]]:
                            out.append((n, c, r[0], c.args[0]))
        return out

    def accept_error_method(self):
        """AsyncTask method that stamps an error with the accepting task (<param>._task = self)."""
        def find():
            out = []
            for m in self.AsyncTask.methods.values():
                ps = q.param_names(m.node)
                for n in ast.walk(m.node):
                    if isinstance(n, ast.Assign) and len(ps) > 1 and any(q.src(t) == "%s._task" % ps[1] for t in n.targets) and q.src(n.value) == "self":
                        out.append(m)
            if len(set(x.qualname for x in out)) != 1:
                raise AnalysisError("role: expected one AsyncTask method stamping errors with their task, found %d" % len(out))
            return out[0]
        return self._memo("accept_error", find)
