"""Small syntactic query helpers shared by the rules."""
import ast
import re

from .frontend import dotted_name, walk_expr, iter_scope

dotted = dotted_name


def calls(node):
    """All ast.Call nodes evaluated by this statement/expression (no nested defs/lambdas)."""
    return [n for n in walk_expr(node) if isinstance(n, ast.Call)]


def call_name(call):
    return dotted_name(call.func)


def attr_call(call):
    """(receiver expr, method name) for `recv.m(...)`, else (None, None)."""
    if isinstance(call.func, ast.Attribute):
        return call.func.value, call.func.attr
    return None, None


def is_attr_call(call, attr, recv=None):
    r, a = attr_call(call)
    if a != attr:
        return False
    if recv is None:
        return True
    return dotted_name(r) == recv


def src(node):
    try:
        return re.sub(r"\s+", " ", ast.unparse(node)).strip()
    except Exception:
        return "<%s>" % type(node).__name__


def stmt_key(node, limit=90):
    s = src(node)
    return s if len(s) <= limit else s[: limit - 3] + "..."


def names_loaded(node):
    return set(n.id for n in walk_expr(node) if isinstance(n, ast.Name) and isinstance(n.ctx, ast.Load))


def names_stored(node):
    out = set()
    for n in walk_expr(node):
        if isinstance(n, ast.Name) and isinstance(n.ctx, (ast.Store, ast.Del)):
            out.add(n.id)
    return out


def attr_stores(node):
    """[(receiver dotted or None, attr, ast node)] for every attribute store in node."""
    out = []
    for n in walk_expr(node):
        if isinstance(n, ast.Attribute) and isinstance(n.ctx, (ast.Store, ast.Del)):
            out.append((dotted_name(n.value), n.attr, n))
    return out


def attr_loads(node):
    out = []
    for n in walk_expr(node):
        if isinstance(n, ast.Attribute) and isinstance(n.ctx, ast.Load):
            out.append((dotted_name(n.value), n.attr, n))
    return out


def is_none(e):
    return isinstance(e, ast.Constant) and e.value is None


def atom_test(e):
    """Normalise an atomic test expression to (kind, subject, positive).

    kinds: 'isnone' (subject is None), 'call' (subject = dotted callee incl. receiver, args
    ignored), 'truth' (subject = source), 'is' / 'cmp' (subject = (op, left, right) sources),
    'isinstance' (subject = (obj, classes)).  positive=False means the test is the negation of
    the normal form (e.g. `x is not None` -> ('isnone', 'x', False)).
    """
    if isinstance(e, ast.UnaryOp) and isinstance(e.op, ast.Not):
        k, s, p = atom_test(e.operand)
        return k, s, not p
    if isinstance(e, ast.Compare) and len(e.ops) == 1:
        op, l, r = e.ops[0], e.left, e.comparators[0]
        if isinstance(op, (ast.Is, ast.IsNot)):
            pos = isinstance(op, ast.Is)
            if is_none(r):
                return "isnone", src(l), pos
            if is_none(l):
                return "isnone", src(r), pos
            if isinstance(r, ast.Constant) and r.value is True:
                k, s, p = atom_test(l)
                return k, s, p if pos else not p
            a, b = sorted([src(l), src(r)])
            return "is", (a, b), pos
        if isinstance(op, (ast.Eq, ast.NotEq)):
            pos = isinstance(op, ast.Eq)
            a, b = sorted([src(l), src(r)])
            return "eq", (a, b), pos
        # orderings: canonical form  a < b  /  a <= b
        if isinstance(op, ast.Gt):
            return "lt", (src(r), src(l)), True
        if isinstance(op, ast.Lt):
            return "lt", (src(l), src(r)), True
        if isinstance(op, ast.GtE):  # a >= b  ==  not (a < b)
            return "lt", (src(l), src(r)), False
        if isinstance(op, ast.LtE):  # a <= b  ==  not (b < a)
            return "lt", (src(r), src(l)), False
        if isinstance(op, (ast.In, ast.NotIn)):
            return "in", (src(l), src(r)), isinstance(op, ast.In)
    if isinstance(e, ast.Call):
        nm = dotted_name(e.func)
        if nm == "isinstance" and len(e.args) == 2:
            return "isinstance", (src(e.args[0]), src(e.args[1])), True
        if nm is not None:
            return "call", nm, True
    return "truth", src(e), True


def const_value(e):
    if isinstance(e, ast.Constant):
        return e.value
    return None


def enclosing_stmt(node):
    cur = node
    while cur is not None and not isinstance(cur, ast.stmt):
        cur = getattr(cur, "_parent", None)
    return cur


def ancestors(node):
    cur = getattr(node, "_parent", None)
    while cur is not None:
        yield cur
        cur = getattr(cur, "_parent", None)


def enclosing(node, types):
    for a in ancestors(node):
        if isinstance(a, types):
            return a
    return None


def in_loop(node, stop=None):
    for a in ancestors(node):
        if a is stop:
            return False
        if isinstance(a, (ast.For, ast.While, ast.AsyncFor)):
            return True
        if isinstance(a, (ast.FunctionDef, ast.AsyncFunctionDef, ast.Lambda)):
            return False
        if isinstance(a, (ast.ListComp, ast.SetComp, ast.DictComp, ast.GeneratorExp)):
            return True
    return False


def scope_nodes(fn_node):
    return list(iter_scope(fn_node))


def has_yield(fn_node):
    return any(isinstance(n, (ast.Yield, ast.YieldFrom)) for n in iter_scope(fn_node))


def param_names(fn_node):
    a = fn_node.args
    return [x.arg for x in a.posonlyargs + a.args]


def enclosing_block(stmt):
    """The statement list (body / orelse / finalbody / handler body) that directly contains stmt, or None."""
    par = getattr(stmt, "_parent", None)
    if par is None:
        return None
    for fld in ("body", "orelse", "finalbody"):
        blk = getattr(par, fld, None)
        if isinstance(blk, list) and any(x is stmt for x in blk):
            return blk
    for h in getattr(par, "handlers", []) or []:
        if any(x is stmt for x in h.body):
            return h.body
    return None
