"""Rule building blocks on top of the CFG: guards (cut-set dominance), must-pass, ordering,
call-site discovery."""
import ast

from .cfg import cfg_of, N, X, Node
from .errors import AnalysisError
from . import q


def node_exprs(node):
    """The expressions evaluated *at* this CFG node (not the bodies it governs)."""
    k = node.kind
    a = node.ast
    if a is None:
        return []
    if k == "for":
        return [a.iter]
    if k == "with_enter":
        return [it.context_expr for it in a.items]
    if k == "with_exit":
        return []
    if k == "except":
        return [a.type] if a.type is not None else []
    if k == "assert_fail":
        return [a.msg] if a.msg is not None else []
    if isinstance(a, (ast.FunctionDef, ast.AsyncFunctionDef, ast.ClassDef)):
        return list(a.decorator_list)
    return [a]


def node_calls(node):
    out = []
    for e in node_exprs(node):
        out.extend(q.calls(e))
    return out


def call_sites(fi, pred):
    """[(cfg node, call)] for calls in fi satisfying pred(call)."""
    cfg = cfg_of(fi)
    out = []
    for n in cfg.nodes:
        for c in node_calls(n):
            if pred(c):
                out.append((n, c))
    return out


def attr_call_sites(fi, attr, recv=None):
    return call_sites(fi, lambda c: q.is_attr_call(c, attr, recv))


def stmt_nodes(fi, pred):
    cfg = cfg_of(fi)
    return [n for n in cfg.nodes if n.kind == "stmt" and pred(n.ast)]


def store_nodes(fi, attr, recv="self"):
    """CFG nodes that store to <recv>.<attr> (Assign/AugAssign/Delete targets)."""
    cfg = cfg_of(fi)
    out = []
    for n in cfg.nodes:
        if n.kind not in ("stmt", "for", "with_enter"):
            continue
        tgts = []
        a = n.ast
        if n.kind == "for":
            tgts = [a.target]
        elif isinstance(a, ast.Assign):
            tgts = a.targets
        elif isinstance(a, (ast.AugAssign, ast.AnnAssign)):
            tgts = [a.target]
        elif isinstance(a, ast.Delete):
            tgts = a.targets
        for t in tgts:
            for sub in ast.walk(t):
                if isinstance(sub, ast.Attribute) and sub.attr == attr and isinstance(sub.ctx, (ast.Store, ast.Del)):
                    if recv is None or q.dotted(sub.value) == recv:
                        out.append(n)
    return out


def make_guard(kind, subject_pred, want_positive):
    """Guard on atomic tests: returns f(node) -> label of the out-edge on which the normal-form
    test `kind(subject)` has truth value want_positive, or None if the node is not such a test."""

    def guard(node):
        if node.kind != "test":
            return None
        k, s, pos = q.atom_test(node.ast)
        if k != kind or not subject_pred(s):
            return None
        return "T" if pos == want_positive else "F"

    return guard


class _Proxy(object):
    """A test node seen through the value its flag variable holds on the current path."""
    __slots__ = ("kind", "ast", "stmt", "id", "lineno")

    def __init__(self, node, expr):
        self.kind = "test"
        self.ast = expr
        self.stmt = node.stmt
        self.id = node.id
        self.lineno = node.lineno


def _flaggable(v):
    """Expressions whose value a boolean local may stand for in a later test."""
    if isinstance(v, ast.Constant) and isinstance(v.value, bool):
        return True
    if isinstance(v, ast.Call) and not v.keywords and all(isinstance(a, (ast.Name, ast.Constant, ast.Attribute)) for a in v.args):
        return True
    if isinstance(v, ast.Compare):
        return True
    if isinstance(v, ast.UnaryOp) and isinstance(v.op, ast.Not):
        return _flaggable(v.operand)
    return False


def path_avoiding_guard(cfg, targets, guard, mode=N, sources=None, dead_ok=False):
    """None when every path from entry/sources to a target crosses a guard edge; otherwise a
    witness path that avoids all guard edges.

    The search is path-sensitive in boolean locals: after `flag = <test expression>` a later test
    of `flag` counts as a test of that expression (evaluated where it was assigned - a value
    assigned before the search's sources is unknown), and a flag holding a constant only follows
    the consistent edge."""
    from collections import deque
    tg = set(n.id if isinstance(n, Node) else n for n in targets)
    src = [n.id if isinstance(n, Node) else n for n in (sources or [cfg.entry])]
    if tg and not (cfg.reachable([cfg.entry], X) & tg):
        if dead_ok:
            return None     # pure safety rules (diagnostics): what cannot run cannot do harm
        # "X only behind guard G" must not be discharged by X having become unreachable altogether
        raise AnalysisError("the construct a guard rule is about is unreachable in %s (line %s): dead code cannot discharge the obligation"
                            % (getattr(cfg.fn, "name", "?"), sorted(cfg.nodes[t].lineno or 0 for t in tg)[:3]))
    table = {}            # id(expr) -> expr
    parent = {}
    dq = deque()
    for s0 in src:
        st = (s0, ())
        if st not in parent:
            parent[st] = None
            dq.append(st)
    while dq:
        cur = dq.popleft()
        u, frozen = cur
        nd = cfg.nodes[u]
        if u in tg:
            path = []
            c = cur
            while c is not None:
                path.append(cfg.nodes[c[0]])
                c = parent[c]
            return list(reversed(path))
        kd = dict((k, table[i]) for k, i in frozen)
        eff = nd
        only = None
        if nd.kind == "test" and isinstance(nd.ast, ast.Name) and nd.ast.id in kd:
            val = kd[nd.ast.id]
            if isinstance(val, ast.Constant):
                only = "T" if val.value else "F"
            else:
                eff = _Proxy(nd, val)
        if nd.kind == "stmt" and isinstance(nd.ast, ast.Assign):
            for t in nd.ast.targets:
                if isinstance(t, ast.Name):
                    if _flaggable(nd.ast.value):
                        kd[t.id] = nd.ast.value
                        table[id(nd.ast.value)] = nd.ast.value
                    else:
                        kd.pop(t.id, None)
        elif nd.kind == "stmt" and isinstance(nd.ast, ast.AugAssign) and isinstance(nd.ast.target, ast.Name):
            kd.pop(nd.ast.target.id, None)
        lab = guard(eff) if eff.kind == "test" else None
        nf = _freeze(kd)
        for e in cfg.succ[u]:
            if not cfg.edge_ok(e, mode):
                continue
            if lab is not None and e.label == lab:
                continue
            if only is not None and e.label in ("T", "F") and e.label != only:
                continue
            nxt = (e.dst, nf)
            if nxt in parent:
                continue
            parent[nxt] = cur
            dq.append(nxt)
    return None


def _freeze(kd):
    return tuple(sorted((k, id(v)) for k, v in kd.items()))


def guard_edges_exist(cfg, guard):
    return [n for n in cfg.nodes if guard(n) is not None]


def path_avoiding_nodes(cfg, sources, targets, through, mode=N):
    """None when every path sources->targets passes a node of `through`."""
    return cfg.find_path(sources, targets, mode, cut_nodes=through)


def succs_of(cfg, nodes, mode=N, labels=None):
    out = []
    for n in nodes:
        for e in cfg.out_edges(n.id, mode):
            if labels is None or e.label in labels:
                out.append(e.dst)
    return out


def exits(cfg, normal=True, exceptional=False):
    out = []
    if normal:
        out.append(cfg.exit)
    if exceptional:
        out.append(cfg.raise_exit)
    return out


def must_call_before_exit(fi, pred, mode=N, normal=True, exceptional=False):
    """Witness path entry->exit avoiding every call that satisfies pred, or None."""
    cfg = cfg_of(fi)
    through = [n for n, c in call_sites(fi, pred)]
    return cfg.find_path([cfg.entry], exits(cfg, normal, exceptional), mode, cut_nodes=through)


def at_most_once(fi, nodes, mode=N):
    """None if no path executes two of `nodes` (or one of them twice); else witness."""
    cfg = cfg_of(fi)
    ids = [n.id for n in nodes]
    for n in nodes:
        starts = [e.dst for e in cfg.out_edges(n.id, mode)]
        p = cfg.find_path(starts, ids, mode)
        if p is not None:
            return [n] + p
    return None


def lineno(node):
    return getattr(node, "lineno", None)


def one(items, what):
    if len(items) != 1:
        raise AnalysisError("expected exactly one %s, found %d" % (what, len(items)))
    return items[0]


def handler_covers(handler, name, hier):
    """Does `except` clause cover exceptions of class `name`?"""
    from .cfg import handler_type_names

    names = handler_type_names(handler)
    if names is None:
        return True
    return any(hier.is_sub(name, n) is True for n in names if n is not None)


def enclosing_try_handlers(node_ast):
    """Try statements whose *body* lexically contains node_ast, innermost first, stopping at the
    function boundary."""
    out = []
    child = node_ast
    for a in q.ancestors(node_ast):
        if isinstance(a, (ast.FunctionDef, ast.AsyncFunctionDef, ast.Lambda)):
            break
        if isinstance(a, ast.Try) and any(child is s for s in a.body):
            out.append(a)
        child = a
    return out


def handler_reraises(handler):
    """True when some statement of the handler body is a raise (bare or of the bound name) that
    is not inside a nested try that catches it - approximated lexically."""
    for sub in ast.walk(handler):
        if isinstance(sub, ast.Raise):
            return True
    return False


def as_comprehension(fn_node, expr):
    """Normalise a "list of f(x) for x in src" expression.  Accepts a list comprehension /
    generator / list(<those>) and a name built by `name = []` + one `for x in src: name.append(e)`
    loop (no other statement in the loop, no other mutation of the name).  Returns
    (element expr, loop variable name, iterated expr, has_filter) or None."""
    e = expr
    if isinstance(e, ast.Call) and q.call_name(e) in ("list", "tuple") and len(e.args) == 1:
        e = e.args[0]
    if isinstance(e, (ast.ListComp, ast.GeneratorExp)):
        if len(e.generators) != 1 or not isinstance(e.generators[0].target, ast.Name):
            return None
        g = e.generators[0]
        return e.elt, g.target.id, g.iter, bool(g.ifs)
    if isinstance(e, ast.Name):
        inits, loops, other = [], [], []
        for n in q.scope_nodes(fn_node):
            if isinstance(n, ast.Assign) and any(isinstance(t, ast.Name) and t.id == e.id for t in n.targets):
                inits.append(n)
            if isinstance(n, ast.For):
                apps = [c for c in q.calls(n) if q.call_name(c) == e.id + ".append"]
                if apps:
                    loops.append((n, apps))
            if isinstance(n, ast.Call) and q.attr_call(n)[1] in ("extend", "insert", "pop", "remove", "clear", "sort", "reverse") and q.dotted(q.attr_call(n)[0]) == e.id:
                other.append(n)
        if len(inits) == 1 and isinstance(inits[0].value, ast.List) and not inits[0].value.elts and len(loops) == 1 and not other:
            lp, apps = loops[0]
            if len(apps) == 1 and len(lp.body) == 1 and isinstance(lp.body[0], ast.Expr) and lp.body[0].value is apps[0] and not lp.orelse \
                    and isinstance(lp.target, ast.Name) and len(apps[0].args) == 1:
                return apps[0].args[0], lp.target.id, lp.iter, False
    return None


def follow_decided_env(cfg, truth_of, mode=N):
    """Like follow_decided, but every terminal comes with the plain local bindings made on the way to it: [(node, {name: expr})]
    (`target = fn.asynq` ... `return target(*args)`); a name bound to something that runs (a call) is dropped from the bindings."""
    from collections import deque
    seen = set()
    entry = cfg.entry.id if isinstance(cfg.entry, Node) else cfg.entry
    dq = deque([(entry, (), ())])
    table = {}
    ends = []
    while dq:
        u, fl, env = dq.popleft()
        if (u, fl, env) in seen:
            continue
        seen.add((u, fl, env))
        nd = cfg.nodes[u]
        flags = dict(fl)
        envd = dict(env)
        only = None
        if nd.kind == "test":
            t = truth_of(nd.ast, flags)
            if t is not None:
                only = "T" if t else "F"
        elif nd.kind == "stmt" and isinstance(nd.ast, ast.Assign) and len(nd.ast.targets) == 1 and isinstance(nd.ast.targets[0], ast.Name):
            nm = nd.ast.targets[0].id
            t = truth_of(nd.ast.value, flags) if isinstance(nd.ast.value, (ast.Call, ast.Compare, ast.UnaryOp, ast.Constant, ast.BoolOp)) else None
            if t is not None:
                flags[nm] = t
            else:
                flags.pop(nm, None)
            v = nd.ast.value
            plain = not any(isinstance(y, ast.Call) and not (isinstance(y.func, ast.Name) and y.func.id == "getattr") for y in ast.walk(v)) \
                and not any(isinstance(y, (ast.Yield, ast.YieldFrom, ast.Await)) for y in ast.walk(v))
            # bindings that mention the rebound name are stale
            for k_ in [k_ for k_, i_ in envd.items() if any(isinstance(y, ast.Name) and y.id == nm for y in ast.walk(table[i_]))]:
                envd.pop(k_)
            if plain:
                table[id(v)] = v
                envd[nm] = id(v)
            else:
                envd.pop(nm, None)
        if nd.kind == "stmt" and isinstance(nd.ast, (ast.Return, ast.Raise)):
            ends.append((nd.ast, dict((k_, table[i_]) for k_, i_ in envd.items())))
            continue
        nfl = tuple(sorted(flags.items()))
        nenv = tuple(sorted(envd.items()))
        for e in cfg.succ[u]:
            if not cfg.edge_ok(e, mode):
                continue
            if only is not None and e.label in ("T", "F") and e.label != only:
                continue
            dq.append((e.dst, nfl, nenv))
    return ends


def follow_decided(cfg, truth_of, mode=N):
    """Terminal statements (Return / Raise ast nodes) reachable from the entry when every test that `truth_of(expr, flags)`
    decides (returns True/False; None = undecided, both edges) is followed along the decided edge only.  Boolean locals assigned
    from a decided expression are remembered along the path (`flag = isinstance(x, list)` ... `if flag:`)."""
    from collections import deque
    seen = set()
    entry = cfg.entry.id if isinstance(cfg.entry, Node) else cfg.entry
    dq = deque([(entry, ())])
    ends = []
    while dq:
        u, fl = dq.popleft()
        if (u, fl) in seen:
            continue
        seen.add((u, fl))
        nd = cfg.nodes[u]
        flags = dict(fl)
        only = None
        if nd.kind == "test":
            t = truth_of(nd.ast, flags)
            if t is not None:
                only = "T" if t else "F"
        elif nd.kind == "stmt" and isinstance(nd.ast, ast.Assign) and len(nd.ast.targets) == 1 and isinstance(nd.ast.targets[0], ast.Name):
            t = truth_of(nd.ast.value, flags) if isinstance(nd.ast.value, (ast.Call, ast.Compare, ast.UnaryOp, ast.Constant, ast.BoolOp)) else None
            if t is not None:
                flags[nd.ast.targets[0].id] = t
            else:
                flags.pop(nd.ast.targets[0].id, None)
        if nd.kind == "stmt" and isinstance(nd.ast, (ast.Return, ast.Raise)):
            if not any(nd.ast is x for x in ends):
                ends.append(nd.ast)
            continue
        nfl = tuple(sorted(flags.items()))
        for e in cfg.succ[u]:
            if not cfg.edge_ok(e, mode):
                continue
            if only is not None and e.label in ("T", "F") and e.label != only:
                continue
            dq.append((e.dst, nfl))
    return ends
